package main

// C18 additions after the mutation sweep of hermes/crop_calibration.go
// (192 of 411 syntactic mutants were not reported, almost all in the range
// validation and in the re-derivation of the total temperature sum).
//
//   R4 (extended)  the override re-derives a derived quantity with the same
//                  recurrence as the readers: same reset value, same
//                  per-iteration increment, same trip range.
//   R6             "an override out of its valid range is rejected as a whole":
//                  for every overridable name the set of values the validation
//                  lets through is a non-empty interval and the set it rejects
//                  is non-empty; a silent rejection (false without an error)
//                  happens only for the empty override; the override is applied
//                  exactly to the crop file it names.
//
// R6 does not decide the numeric bounds themselves (they are defined by the
// validation and nowhere else); it decides that each test is a range test.

import (
	"fmt"
	"go/ast"
	"go/constant"
	"go/token"
	"go/types"
	"sort"
	"strings"
)

// normExpr renders an expression with field selections written as
// Struct.Field (whatever the receiver variable is called), the loop variable
// as $i, and parentheses dropped.
func normExpr(info *types.Info, e ast.Expr, loopVar types.Object) string {
	switch t := stripParens(e).(type) {
	case *ast.Ident:
		if o := useObj(info, t); o != nil && o == loopVar {
			return "$i"
		}
		if tv, ok := info.Types[t]; ok && tv.Value != nil {
			return tv.Value.ExactString()
		}
		return t.Name
	case *ast.BasicLit:
		if tv, ok := info.Types[t]; ok && tv.Value != nil {
			return tv.Value.ExactString()
		}
		return t.Value
	case *ast.SelectorExpr:
		if sel, ok := info.Selections[t]; ok && sel.Kind() == types.FieldVal {
			name, _ := namedStruct(sel.Recv())
			return name + "." + t.Sel.Name
		}
		return types.ExprString(t)
	case *ast.IndexExpr:
		return normExpr(info, t.X, loopVar) + "[" + normExpr(info, t.Index, loopVar) + "]"
	case *ast.BinaryExpr:
		a, b := normExpr(info, t.X, loopVar), normExpr(info, t.Y, loopVar)
		if (t.Op == token.ADD || t.Op == token.MUL) && b < a {
			a, b = b, a
		}
		return "(" + a + " " + t.Op.String() + " " + b + ")"
	case *ast.UnaryExpr:
		return t.Op.String() + normExpr(info, t.X, loopVar)
	case *ast.CallExpr:
		var as []string
		for _, a := range t.Args {
			as = append(as, normExpr(info, a, loopVar))
		}
		return types.ExprString(t.Fun) + "(" + strings.Join(as, ",") + ")"
	}
	return types.ExprString(e)
}

// derivSig describes how a function computes field D, from the source as
// written (the symbolic walker would forward the values just read from the
// file into the recurrence): plain stores, and accumulations with their counted loop.
func derivSig(fi *FuncInfo, D string) (sig []string, first token.Pos) {
	info := fi.Pkg.TypesInfo
	ast.Inspect(fi.Decl.Body, func(n ast.Node) bool {
		as, ok := n.(*ast.AssignStmt)
		if !ok || len(as.Lhs) != 1 || len(as.Rhs) != 1 {
			return true
		}
		se, ok := as.Lhs[0].(*ast.SelectorExpr)
		if !ok || se.Sel.Name != D {
			return true
		}
		if sel, ok := info.Selections[se]; !ok || sel.Kind() != types.FieldVal {
			return true
		}
		if first == token.NoPos {
			first = as.Pos()
		}
		// innermost counted loop
		var loop *ast.ForStmt
		for _, a := range nodePath(fi.Decl.Body, as) {
			if f, ok := a.(*ast.ForStmt); ok {
				loop = f
			}
		}
		var lv types.Object
		hdr := ""
		if loop != nil {
			if init, ok := loop.Init.(*ast.AssignStmt); ok && len(init.Lhs) == 1 && len(init.Rhs) == 1 {
				lv = useObj(info, init.Lhs[0])
				lo := normExpr(info, init.Rhs[0], nil)
				hi := "?"
				if be, ok := loop.Cond.(*ast.BinaryExpr); ok && useObj(info, be.X) == lv {
					switch be.Op {
					case token.LSS:
						hi = normExpr(info, be.Y, nil) + "-1"
					case token.LEQ:
						hi = normExpr(info, be.Y, nil)
					}
				}
				step := "?"
				if inc, ok := loop.Post.(*ast.IncDecStmt); ok && inc.Tok == token.INC && useObj(info, inc.X) == lv {
					step = "+1"
				}
				hdr = fmt.Sprintf(" for $i=%s..%s step %s", lo, hi, step)
			} else {
				hdr = " in an unrecognised loop"
			}
		}
		self := normExpr(info, se, lv)
		rhs := normExpr(info, as.Rhs[0], lv)
		switch as.Tok {
		case token.ADD_ASSIGN:
			a, b := self, rhs
			if b < a {
				a, b = b, a
			}
			rhs = "(" + a + " + " + b + ")"
		case token.ASSIGN, token.DEFINE:
		default:
			rhs = self + " " + as.Tok.String() + " " + rhs
		}
		if strings.Contains(rhs, self) && loop != nil {
			sig = append(sig, "acc "+rhs+hdr)
		} else {
			sig = append(sig, "set "+rhs)
		}
		return true
	})
	return
}

func c18DerivShape(p *Prog, r *Report, D string, readers []string) {
	ofi := p.Funcs[owApply]
	if ofi == nil {
		return
	}
	os, first := derivSig(ofi, D)
	for _, rk := range readers {
		rfi := p.Funcs[rk]
		if rfi == nil {
			continue
		}
		rs, _ := derivSig(rfi, D)
		ok := len(os) > 0 && strings.Join(os, " ; ") == strings.Join(rs, " ; ")
		r.Ob("derivation:"+D+":"+strings.TrimPrefix(rk, "hermes."), p.Pos(first), ok, fmt.Sprintf("override computes %s as [%s]; %s computes it as [%s] (must be the same recurrence: the edited file would be read with the reader's)", D, strings.Join(os, " ; "), strings.TrimPrefix(rk, "hermes."), strings.Join(rs, " ; ")))
	}
}

// ---------------------------------------------------------------- R6

type tri int

const (
	triF tri = iota
	triT
	triU
)

func triNot(a tri) tri {
	switch a {
	case triT:
		return triF
	case triF:
		return triT
	}
	return triU
}

// evalRangeCond evaluates e with the parameter name fixed to key and the value to v.
func evalRangeCond(info *types.Info, e ast.Expr, keyObjs, valObjs map[types.Object]bool, key string, v float64) tri {
	e = stripParens(e)
	switch t := e.(type) {
	case *ast.UnaryExpr:
		if t.Op == token.NOT {
			return triNot(evalRangeCond(info, t.X, keyObjs, valObjs, key, v))
		}
	case *ast.BinaryExpr:
		switch t.Op {
		case token.LAND:
			a, b := evalRangeCond(info, t.X, keyObjs, valObjs, key, v), evalRangeCond(info, t.Y, keyObjs, valObjs, key, v)
			if a == triF || b == triF {
				return triF
			}
			if a == triT && b == triT {
				return triT
			}
			return triU
		case token.LOR:
			a, b := evalRangeCond(info, t.X, keyObjs, valObjs, key, v), evalRangeCond(info, t.Y, keyObjs, valObjs, key, v)
			if a == triT || b == triT {
				return triT
			}
			if a == triF && b == triF {
				return triF
			}
			return triU
		case token.EQL, token.NEQ, token.LSS, token.LEQ, token.GTR, token.GEQ:
			x, y := t.X, t.Y
			op := t.Op
			cx, cy := info.Types[x].Value, info.Types[y].Value
			if cx != nil && cy == nil {
				x, y, cx, cy = y, x, cy, cx
				switch op {
				case token.LSS:
					op = token.GTR
				case token.LEQ:
					op = token.GEQ
				case token.GTR:
					op = token.LSS
				case token.GEQ:
					op = token.LEQ
				}
			}
			if cy == nil {
				return triU
			}
			o := useObj(info, x)
			if o == nil {
				return triU
			}
			b2t := func(b bool) tri {
				if b {
					return triT
				}
				return triF
			}
			if keyObjs[o] && cy.Kind() == constant.String {
				s := constant.StringVal(cy)
				switch op {
				case token.EQL:
					return b2t(key == s)
				case token.NEQ:
					return b2t(key != s)
				}
				return triU
			}
			if valObjs[o] && (cy.Kind() == constant.Int || cy.Kind() == constant.Float) {
				c, _ := constant.Float64Val(cy)
				switch op {
				case token.EQL:
					return b2t(v == c)
				case token.NEQ:
					return b2t(v != c)
				case token.LSS:
					return b2t(v < c)
				case token.LEQ:
					return b2t(v <= c)
				case token.GTR:
					return b2t(v > c)
				case token.GEQ:
					return b2t(v >= c)
				}
			}
		}
	}
	return triU
}

func c18Ranges(p *Prog, r *Report) {
	r.Rule("C18.R6", "every range test is a range test: for each overridable name, the values the validation lets through form one non-empty interval and some value is rejected (evaluated on the test's own constants and the points between and beyond them, with the name fixed); a rejection without an error message happens only for the empty override; the override is applied to exactly the crop file it names; stage and organ indices are tested as 1..count", 24)
	fi := p.Funcs[owValidate]
	if fi == nil {
		r.Ob("validate", "-", false, owValidate+" not found")
		return
	}
	info := fi.Pkg.TypesInfo
	body := fi.Decl.Body
	// key and value variables: range keys of string type / range values of float type
	keyObjs, valObjs := map[types.Object]bool{}, map[types.Object]bool{}
	ast.Inspect(body, func(n ast.Node) bool {
		rs, ok := n.(*ast.RangeStmt)
		if !ok {
			return true
		}
		if rs.Key != nil {
			if o := useObj(info, rs.Key); o != nil {
				if b, ok := o.Type().Underlying().(*types.Basic); ok && b.Kind() == types.String {
					keyObjs[o] = true
				}
			}
		}
		if rs.Value != nil {
			if o := useObj(info, rs.Value); o != nil {
				if b, ok := o.Type().Underlying().(*types.Basic); ok && b.Kind() == types.Float64 {
					valObjs[o] = true
				}
			}
		}
		return true
	})
	// class loops: the outermost range statements
	type retInfo struct {
		rs    *ast.ReturnStmt
		conds []astCond
		class ast.Stmt
	}
	var rets []retInfo
	ast.Inspect(body, func(n ast.Node) bool {
		rs, ok := n.(*ast.ReturnStmt)
		if !ok || len(rs.Results) != 2 {
			return true
		}
		if tv := info.Types[rs.Results[0]]; tv.Value == nil || tv.Value.Kind() != constant.Bool || constant.BoolVal(tv.Value) {
			return true
		}
		conds, loops := astPathConds(info, body, rs)
		ri := retInfo{rs: rs, conds: conds}
		if len(loops) > 0 {
			ri.class = loops[0]
		}
		rets = append(rets, ri)
		return true
	})
	// names and constants per class
	type classInfo struct {
		names  map[string]bool
		consts map[float64]bool
	}
	classes := map[ast.Stmt]*classInfo{}
	var classOrder []ast.Stmt
	for _, st := range body.List {
		rs, ok := st.(*ast.RangeStmt)
		if !ok {
			continue
		}
		ci := &classInfo{names: map[string]bool{}, consts: map[float64]bool{}}
		classes[rs] = ci
		classOrder = append(classOrder, rs)
		ast.Inspect(rs.Body, func(n ast.Node) bool {
			be, ok := n.(*ast.BinaryExpr)
			if !ok {
				return true
			}
			for _, pr := range [][2]ast.Expr{{be.X, be.Y}, {be.Y, be.X}} {
				o := useObj(info, pr[0])
				cv := info.Types[pr[1]].Value
				if o == nil || cv == nil {
					continue
				}
				if keyObjs[o] && cv.Kind() == constant.String && be.Op == token.EQL {
					ci.names[constant.StringVal(cv)] = true
				}
				if valObjs[o] && (cv.Kind() == constant.Int || cv.Kind() == constant.Float) {
					f, _ := constant.Float64Val(cv)
					ci.consts[f] = true
				}
			}
			return true
		})
	}
	for _, cl := range classOrder {
		ci := classes[cl]
		var names []string
		for n := range ci.names {
			names = append(names, n)
		}
		sort.Strings(names)
		var cs []float64
		for c := range ci.consts {
			cs = append(cs, c)
		}
		sort.Float64s(cs)
		if len(cs) == 0 {
			continue
		}
		// sample points: below, each constant, each midpoint, above
		pts := []float64{cs[0] - 1}
		for i, c := range cs {
			pts = append(pts, c)
			if i+1 < len(cs) {
				pts = append(pts, (c+cs[i+1])/2)
			}
		}
		pts = append(pts, cs[len(cs)-1]+1)
		for _, name := range names {
			var acc []bool
			for _, v := range pts {
				rejected := false
				for _, ri := range rets {
					if ri.class != cl {
						continue
					}
					reach := true
					for _, c := range ri.conds {
						t := evalRangeCond(info, c.E, keyObjs, valObjs, name, v)
						if c.Neg {
							t = triNot(t)
						}
						if t == triF || (t == triU && !(c.Neg && c.Exit != nil)) {
							reach = false
						}
					}
					if reach {
						rejected = true
					}
				}
				acc = append(acc, !rejected)
			}
			nAcc, runs := 0, 0
			for i, a := range acc {
				if a {
					nAcc++
					if i == 0 || !acc[i-1] {
						runs++
					}
				}
			}
			var shown []string
			for i, a := range acc {
				if a {
					shown = append(shown, fmt.Sprintf("%g", pts[i]))
				}
			}
			ok := nAcc > 0 && nAcc < len(acc) && runs == 1
			r.Ob("range:"+name, p.Pos(cl.Pos()), ok, fmt.Sprintf("with the name fixed to %s the validation lets through %d of %d probe values %v in %d run(s) (must be one non-empty interval with something rejected)", name, nAcc, len(acc), clipList(shown, 8), runs))
		}
	}
	// silent rejection only for the empty override
	nSilent := 0
	okSilent := true
	det := ""
	for _, ri := range rets {
		if tv := info.Types[ri.rs.Results[1]]; !tv.IsNil() {
			continue
		}
		nSilent++
		good := len(ri.conds) == 1 && !ri.conds[0].Neg
		if good {
			be, ok := stripParens(ri.conds[0].E).(*ast.BinaryExpr)
			good = ok && be.Op == token.EQL && fieldOf(info, be.X) == "CropFile" && types.ExprString(stripParens(be.Y)) == `""`
		}
		if !good {
			okSilent = false
			det += fmt.Sprintf(" at %s under [%s]", p.Pos(ri.rs.Pos()), joinConds(ri.conds))
		}
	}
	r.Ob("silent-reject", p.Pos(fi.Decl.Pos()), okSilent && nSilent >= 1, fmt.Sprintf("%d rejection(s) without an error message; each must be under exactly 'no crop file named'%s", nSilent, det))
	// target crop
	afi := p.Funcs[owApply]
	if afi == nil {
		return
	}
	ainfo := afi.Pkg.TypesInfo
	okT := false
	detT := "the override does not start by comparing its crop file name with the file being read"
	if len(afi.Decl.Body.List) > 0 {
		if is, ok := afi.Decl.Body.List[0].(*ast.IfStmt); ok && is.Else == nil && len(is.Body.List) == 1 {
			if rs, ok := is.Body.List[0].(*ast.ReturnStmt); ok && len(rs.Results) == 0 {
				if be, ok := stripParens(is.Cond).(*ast.BinaryExpr); ok && be.Op == token.NEQ {
					x, y := be.X, be.Y
					if fieldOf(ainfo, x) != "CropFile" {
						x, y = y, x
					}
					if fieldOf(ainfo, x) == "CropFile" {
						if c, ok := stripParens(y).(*ast.CallExpr); ok && len(c.Args) == 1 {
							if f := callee(ainfo, c); f != nil && f.FullName() == "path/filepath.Base" {
								if po := useObj(ainfo, c.Args[0]); po != nil {
									if _, isParam := paramIndex(afi.Decl, po); isParam {
										okT = true
										detT = "returns without effect exactly when " + types.ExprString(is.Cond)
									}
								}
							}
						}
					}
				}
			}
		}
	}
	r.Ob("target-crop", p.Pos(afi.Decl.Pos()), okT, detT)
}

func clipList(s []string, n int) []string {
	if len(s) <= n {
		return s
	}
	return append(append([]string{}, s[:n]...), "…")
}

// c18ParserAccepts (R1): for every name that is applied, the parser's filter
// really answers true when asked about that name (the literal occurring in the
// filter is not enough: `a == "X" && b == "Y"` mentions both and accepts neither).
func c18ParserAccepts(p *Prog, r *Report, applied []string) {
	fi := p.Funcs["hermes.isValidCropParameter"]
	if fi == nil {
		return
	}
	info := fi.Pkg.TypesInfo
	keyObjs := map[types.Object]bool{}
	for _, f := range fi.Decl.Type.Params.List {
		for _, n := range f.Names {
			keyObjs[info.Defs[n]] = true
		}
	}
	type ret struct {
		val   bool
		conds []astCond
	}
	var rets []ret
	ast.Inspect(fi.Decl.Body, func(n ast.Node) bool {
		rs, ok := n.(*ast.ReturnStmt)
		if !ok || len(rs.Results) != 1 {
			return true
		}
		tv := info.Types[rs.Results[0]]
		if tv.Value == nil || tv.Value.Kind() != constant.Bool {
			rets = append(rets, ret{val: false, conds: []astCond{{E: &ast.Ident{Name: "computed-result"}}}})
			return true
		}
		conds, _ := astPathConds(info, fi.Decl.Body, rs)
		rets = append(rets, ret{val: constant.BoolVal(tv.Value), conds: conds})
		return true
	})
	answer := func(name string) string {
		for _, rt := range rets {
			all := true
			for _, c := range rt.conds {
				t := evalRangeCond(info, c.E, keyObjs, nil, name, 0)
				if c.Neg {
					t = triNot(t)
				}
				if t != triT {
					all = false
				}
			}
			if all {
				return fmt.Sprint(rt.val)
			}
		}
		return "undetermined"
	}
	for _, n := range applied {
		a := answer(n)
		r.Ob("parser-accepts:"+n, p.Pos(fi.Decl.Pos()), a == "true", fmt.Sprintf("asked about %s the parser's filter answers %s (an applied name the parser refuses can never be overridden)", n, a))
	}
	a := answer("\x00no-such-parameter")
	r.Ob("parser-refuses-unknown", p.Pos(fi.Decl.Pos()), a == "false", "asked about a name that is no parameter the filter answers "+a)
}

// c18IndexTests (R6): stage and organ indices are tested as 1..N.
func c18IndexTests(p *Prog, r *Report) {
	fi := p.Funcs[owValidate]
	if fi == nil {
		return
	}
	info := fi.Pkg.TypesInfo
	body := fi.Decl.Body
	isIntIndex := func(e ast.Expr) bool {
		tv, ok := info.Types[e]
		if !ok || tv.Value != nil {
			return false
		}
		b, ok := tv.Type.Underlying().(*types.Basic)
		if !ok || b.Kind() != types.Int {
			return false
		}
		if o := useObj(info, e); o != nil {
			if _, isParam := paramIndex(fi.Decl, o); isParam {
				return false
			}
		}
		return true
	}
	ast.Inspect(body, func(n ast.Node) bool {
		rs, ok := n.(*ast.ReturnStmt)
		if !ok || len(rs.Results) != 2 {
			return true
		}
		if tv := info.Types[rs.Results[0]]; tv.Value == nil || tv.Value.Kind() != constant.Bool || constant.BoolVal(tv.Value) {
			return true
		}
		conds, _ := astPathConds(info, body, rs)
		// the innermost own condition
		var own *astCond
		for i := range conds {
			if conds[i].Exit == nil {
				own = &conds[i]
			}
		}
		if own == nil {
			return true
		}
		// does it test an integer index?
		var idx ast.Expr
		ast.Inspect(own.E, func(m ast.Node) bool {
			if be, ok := m.(*ast.BinaryExpr); ok {
				for _, s := range []ast.Expr{be.X, be.Y} {
					if isIntIndex(s) && idx == nil {
						idx = s
					}
				}
			}
			return true
		})
		if idx == nil {
			return true
		}
		name := types.ExprString(idx)
		okShape := false
		if be, ok := stripParens(own.E).(*ast.BinaryExpr); ok && !own.Neg && be.Op == token.LOR {
			lowOK, highOK := false, false
			for _, side := range []ast.Expr{be.X, be.Y} {
				c, ok := stripParens(side).(*ast.BinaryExpr)
				if !ok {
					continue
				}
				x, y, op := c.X, c.Y, c.Op
				if types.ExprString(stripParens(y)) == name {
					x, y = y, x
					switch op {
					case token.LSS:
						op = token.GTR
					case token.GTR:
						op = token.LSS
					case token.LEQ:
						op = token.GEQ
					case token.GEQ:
						op = token.LEQ
					}
				}
				if types.ExprString(stripParens(x)) != name {
					continue
				}
				if cv := info.Types[y].Value; cv != nil {
					if f, _ := constant.Float64Val(cv); (op == token.LSS && f == 1) || (op == token.LEQ && f == 0) {
						lowOK = true
					}
				} else if o := useObj(info, y); o != nil && op == token.GTR {
					if _, isParam := paramIndex(fi.Decl, o); isParam {
						highOK = true
					}
				}
			}
			okShape = lowOK && highOK
		}
		r.Ob("index-range:"+name, p.Pos(rs.Pos()), okShape, fmt.Sprintf("rejected when [%s] (must be: below 1 or above the count handed in — an index outside would address another stage's or organ's slot, or none)", own.String()))
		return true
	})
}

// C18.R7 — the override is matched against the name of the parameter file, which is built from the crop code
// that CropTypeToString hands back.  The lookup must be a function of its arguments and the code tables alone
// (no remembered answer), and with withSpaces == false it must hand back the table key itself.
func c18CropCode(p *Prog, r *Report) {
	r.Rule("C18.R7", "the crop code that names the parameter file (and is compared with the override's file name) is looked up statelessly: the lookup stores nothing outside its own locals, every hit returns the table key through the padding helper, and the padding helper returns its argument unchanged unless padding was asked for", 3)
	fi := p.Funcs["hermes.GlobalVarsMain.CropTypeToString"]
	if fi == nil {
		r.Ob("lookup", "-", false, "CropTypeToString not found")
		return
	}
	info := fi.Pkg.TypesInfo
	body := fi.Decl.Body
	local := func(o types.Object) bool {
		return o != nil && o.Pos() >= body.Pos() && o.Pos() <= body.End()
	}
	stateless := true
	where := fi.Decl.Pos()
	ast.Inspect(body, func(n ast.Node) bool {
		var lhs []ast.Expr
		switch s := n.(type) {
		case *ast.AssignStmt:
			lhs = s.Lhs
		case *ast.IncDecStmt:
			lhs = []ast.Expr{s.X}
		}
		for _, l := range lhs {
			e := stripParens(l)
			for {
				switch t := e.(type) {
				case *ast.IndexExpr:
					e = stripParens(t.X)
					continue
				case *ast.SelectorExpr:
					e = stripParens(t.X)
					continue
				case *ast.StarExpr:
					e = stripParens(t.X)
					continue
				}
				break
			}
			id, ok := e.(*ast.Ident)
			if !ok || id.Name == "_" {
				continue
			}
			o := useObj(info, id)
			if !local(o) {
				stateless = false
				where = l.Pos()
			} else if _, isPtr := o.Type().Underlying().(*types.Pointer); isPtr && e != stripParens(l) {
				stateless = false
				where = l.Pos()
			}
		}
		return true
	})
	r.Ob("code:stateless", p.Pos(where), stateless, fmt.Sprintf("the lookup assigns only its own locals: %v (an answer remembered in the run state is handed back later in whatever form it was stored)", stateless))
	// the padding helper
	var pad types.Object
	var padLit *ast.FuncLit
	ast.Inspect(body, func(n ast.Node) bool {
		if as, ok := n.(*ast.AssignStmt); ok && len(as.Lhs) == 1 && len(as.Rhs) == 1 {
			if fl, ok := as.Rhs[0].(*ast.FuncLit); ok && padLit == nil {
				pad, padLit = useObj(info, as.Lhs[0]), fl
			}
		}
		return true
	})
	// hits: return inside a range over a map, under value == c
	nHit, okHit := 0, true
	ast.Inspect(body, func(n ast.Node) bool {
		rg, ok := n.(*ast.RangeStmt)
		if !ok || rg.Key == nil {
			return true
		}
		key := useObj(info, rg.Key)
		ast.Inspect(rg.Body, func(m ast.Node) bool {
			rs, ok := m.(*ast.ReturnStmt)
			if !ok || len(rs.Results) != 1 {
				return true
			}
			nHit++
			good := false
			switch t := stripParens(rs.Results[0]).(type) {
			case *ast.Ident:
				good = useObj(info, t) == key
			case *ast.CallExpr:
				good = pad != nil && useObj(info, t.Fun) == pad && len(t.Args) == 1 && useObj(info, t.Args[0]) == key
			}
			if !good {
				okHit = false
			}
			return true
		})
		return true
	})
	r.Ob("code:hit-returns-key", p.Pos(fi.Decl.Pos()), nHit >= 2 && okHit, fmt.Sprintf("%d hit returns, each hands back the key of the table entry (through the padding helper): %v", nHit, okHit))
	okPad := false
	det := "no padding helper"
	if padLit != nil && len(padLit.Type.Params.List) == 1 && len(padLit.Type.Params.List[0].Names) == 1 {
		arg := info.Defs[padLit.Type.Params.List[0].Names[0]]
		// last statement: return arg; every other return lies under the withSpaces flag
		det = "the helper's fall-through does not return its argument"
		if l := len(padLit.Body.List); l > 0 {
			if rs, ok := padLit.Body.List[l-1].(*ast.ReturnStmt); ok && len(rs.Results) == 1 && useObj(info, rs.Results[0]) == arg {
				okPad = true
				det = "fall-through returns the argument"
				var flag types.Object
				if pl := fi.Decl.Type.Params.List; len(pl) >= 2 && len(pl[1].Names) == 1 {
					flag = info.Defs[pl[1].Names[0]]
				}
				for _, st := range padLit.Body.List[:l-1] {
					ifs, isIf := st.(*ast.IfStmt)
					if !isIf || useObj(info, ifs.Cond) != flag || flag == nil || ifs.Else != nil {
						okPad = false
						det = "a statement before the fall-through is not guarded by the padding flag alone"
					}
				}
				if len(defsOf(info, padLit.Body, arg)) != 0 {
					okPad = false
					det = "the helper reassigns its argument"
				}
			}
		}
	}
	r.Ob("code:unpadded-unchanged", p.Pos(fi.Decl.Pos()), okPad, "without padding the helper returns the key unchanged: "+det)
}
