package main

// E5 — interval evaluation of an extracted normal form over a declared input
// box, outward rounded, with branch-and-bound subdivision.  This is abstract
// interpretation of the source expression in the interval domain: the program
// is never run; a goal is either proved for the whole (continuous) box or the
// sub-box on which it could not be established is reported.

import (
	"fmt"
	"math"
	"math/big"
	"sort"
)

type Iv struct{ Lo, Hi float64 }

func ivPoint(x float64) Iv { return Iv{x, x} }

func down(x float64) float64 { return math.Nextafter(x, math.Inf(-1)) }
func up(x float64) float64   { return math.Nextafter(x, math.Inf(1)) }

// exactSum reports whether the floating point sum a+b is exact (TwoSum error term is zero).
func exactSum(a, b float64) (float64, bool) {
	s := a + b
	if math.IsInf(s, 0) || math.IsNaN(s) {
		return s, false
	}
	bb := s - a
	err := (a - (s - bb)) + (b - bb)
	return s, err == 0
}

func ivAdd(a, b Iv) Iv {
	lo, exLo := exactSum(a.Lo, b.Lo)
	hi, exHi := exactSum(a.Hi, b.Hi)
	r := Iv{lo, hi}
	if !exLo {
		r.Lo = down(lo)
	}
	if !exHi {
		r.Hi = up(hi)
	}
	if a.Lo >= 0 && b.Lo >= 0 && r.Lo < 0 {
		r.Lo = 0
	}
	if a.Hi <= 0 && b.Hi <= 0 && r.Hi > 0 {
		r.Hi = 0
	}
	return r
}

func ivNeg(a Iv) Iv { return Iv{-a.Hi, -a.Lo} }

func ivMul(a, b Iv) Iv {
	type pr struct {
		v     float64
		exact bool
	}
	mk := func(x, y float64) pr {
		v := x * y
		ex := !math.IsInf(v, 0) && !math.IsNaN(v) && math.FMA(x, y, -v) == 0
		return pr{v, ex}
	}
	p := []pr{mk(a.Lo, b.Lo), mk(a.Lo, b.Hi), mk(a.Hi, b.Lo), mk(a.Hi, b.Hi)}
	lo, hi := p[0], p[0]
	for _, v := range p[1:] {
		if math.IsNaN(v.v) {
			lo.v = math.NaN()
		}
		if v.v < lo.v || v.v == lo.v && !v.exact {
			lo = v
		}
		if v.v > hi.v || v.v == hi.v && !v.exact {
			hi = v
		}
	}
	if math.IsNaN(lo.v) || math.IsNaN(hi.v) {
		return Iv{math.Inf(-1), math.Inf(1)}
	}
	r := Iv{lo.v, hi.v}
	if !lo.exact {
		r.Lo = down(lo.v)
	}
	if !hi.exact {
		r.Hi = up(hi.v)
	}
	// sign information is exact: outward rounding must not move a bound across zero
	if lo.v >= 0 && r.Lo < 0 {
		r.Lo = 0
	}
	if hi.v <= 0 && r.Hi > 0 {
		r.Hi = 0
	}
	return r
}

func ivInv(a Iv) (Iv, bool) {
	if a.Lo <= 0 && a.Hi >= 0 {
		return Iv{math.Inf(-1), math.Inf(1)}, false
	}
	return Iv{down(1 / a.Hi), up(1 / a.Lo)}, true
}

func ivPow(a Iv, n int) (Iv, bool) {
	if n == 0 {
		return ivPoint(1), true
	}
	if n == 1 {
		return a, true
	}
	if n < 0 {
		inv, ok := ivInv(a)
		if !ok {
			return inv, false
		}
		return ivPow(inv, -n)
	}
	if n%2 == 0 && a.Lo < 0 && a.Hi > 0 {
		m := math.Max(-a.Lo, a.Hi)
		return Iv{0, up(math.Pow(m, float64(n)))}, true
	}
	lo, hi := math.Pow(a.Lo, float64(n)), math.Pow(a.Hi, float64(n))
	if lo > hi {
		lo, hi = hi, lo
	}
	r := Iv{down(lo), up(hi)}
	if lo >= 0 && r.Lo < 0 {
		r.Lo = 0
	}
	if hi <= 0 && r.Hi > 0 {
		r.Hi = 0
	}
	return r, true
}

func ivRat(r *big.Rat) Iv {
	f, exact := r.Float64()
	if exact {
		return ivPoint(f)
	}
	return Iv{down(f), up(f)}
}

type ivEnv func(a *Atom) (Iv, bool)

// evalIv evaluates a normal form over intervals.
func evalIv(p Poly, env ivEnv) (Iv, error) {
	sum := ivPoint(0)
	for _, t := range p.sortedTerms() {
		v := ivRat(t.C)
		for _, f := range t.M {
			a, err := atomIv(f.A, env)
			if err != nil {
				return Iv{}, err
			}
			pw, ok := ivPow(a, f.E)
			if !ok {
				return Iv{math.Inf(-1), math.Inf(1)}, fmt.Errorf("division by an interval containing zero: %s ∈ [%g, %g]", f.A.Key, a.Lo, a.Hi)
			}
			v = ivMul(v, pw)
		}
		sum = ivAdd(sum, v)
	}
	return sum, nil
}

func atomIv(a *Atom, env ivEnv) (Iv, error) {
	if v, ok := env(a); ok {
		return v, nil
	}
	switch a.Kind {
	case "inv":
		if len(a.Args) == 1 {
			return evalIv(a.Args[0], env)
		}
	case "call":
		var args []Iv
		for _, q := range a.Args {
			v, err := evalIv(q, env)
			if err != nil {
				return Iv{}, err
			}
			args = append(args, v)
		}
		switch {
		case a.Fn == "min" && len(args) == 2:
			return Iv{math.Min(args[0].Lo, args[1].Lo), math.Min(args[0].Hi, args[1].Hi)}, nil
		case a.Fn == "max" && len(args) == 2:
			return Iv{math.Max(args[0].Lo, args[1].Lo), math.Max(args[0].Hi, args[1].Hi)}, nil
		case a.Fn == "abs" && len(args) == 1:
			if args[0].Lo >= 0 {
				return args[0], nil
			}
			if args[0].Hi <= 0 {
				return ivNeg(args[0]), nil
			}
			return Iv{0, math.Max(-args[0].Lo, args[0].Hi)}, nil
		case a.Fn == "sqrt" && len(args) == 1 && args[0].Lo >= 0:
			return Iv{down(math.Sqrt(args[0].Lo)), up(math.Sqrt(args[0].Hi))}, nil
		case a.Fn == "log" && len(args) == 1 && args[0].Lo > 0:
			return Iv{down(math.Log(args[0].Lo)), up(math.Log(args[0].Hi))}, nil
		case a.Fn == "exp" && len(args) == 1:
			return Iv{down(math.Exp(args[0].Lo)), up(math.Exp(args[0].Hi))}, nil
		case a.Fn == "pow" && len(args) == 2 && isConstPoly(a.Args[1]) && (args[0].Lo > 0 || args[0].Lo >= 0 && args[1].Lo > 0):
			ec, _ := a.Args[1].Const()
			e, _ := ec.Float64()
			lo, hi := math.Pow(args[0].Lo, e), math.Pow(args[0].Hi, e)
			if lo > hi {
				lo, hi = hi, lo
			}
			return Iv{down(lo), up(hi)}, nil
		}
	}
	return Iv{}, fmt.Errorf("no interval for atom %s (kind %s)%s", a.Key, a.Kind, dbgArgs(a, env))
}

// ---------------------------------------------------------------- branch and bound

type ivGoal struct {
	Name string
	F    Poly
	Op   string  // ">" | ">=" | "<" | "<="
	C    float64 // compared with the constant C
}

type ivConstraint struct {
	F  Poly // feasible iff F <= 0
	Nm string
}

type bbResult struct {
	Proved    bool
	Boxes     int
	MaxDepth  int
	Bound     Iv // hull of the goal function over the feasible leaves
	FailBox   map[string]Iv
	FailValue Iv
	Err       string
}

// proveOnBox proves goal on box ∩ {constraints}.  vars are the atoms the box
// ranges over (by atom key).
func proveOnBox(goal ivGoal, vars []*Atom, box map[string]Iv, cons []ivConstraint, maxDepth int, fixed map[string]Iv) bbResult {
	res := bbResult{Proved: true, Bound: Iv{math.Inf(1), math.Inf(-1)}}
	type node struct {
		b map[string]Iv
		d int
	}
	holds := func(v Iv) bool {
		switch goal.Op {
		case ">":
			return v.Lo > goal.C
		case ">=":
			return v.Lo >= goal.C
		case "<":
			return v.Hi < goal.C
		case "<=":
			return v.Hi <= goal.C
		}
		return false
	}
	work := []node{{box, 0}}
	for len(work) > 0 {
		n := work[len(work)-1]
		work = work[:len(work)-1]
		res.Boxes++
		if n.d > res.MaxDepth {
			res.MaxDepth = n.d
		}
		env := func(a *Atom) (Iv, bool) {
			if v, ok := n.b[a.Key]; ok {
				return v, true
			}
			if v, ok := fixed[a.Key]; ok {
				return v, true
			}
			return Iv{}, false
		}
		infeasible := false
		for _, c := range cons {
			v, err := evalIv(c.F, env)
			if err != nil {
				res.Proved, res.Err = false, err.Error()
				return res
			}
			if v.Lo > 0 {
				infeasible = true
			}
		}
		if infeasible {
			continue
		}
		v, err := evalIv(goal.F, env)
		if err == nil && holds(v) {
			if v.Lo < res.Bound.Lo {
				res.Bound.Lo = v.Lo
			}
			if v.Hi > res.Bound.Hi {
				res.Bound.Hi = v.Hi
			}
			continue
		}
		if n.d >= maxDepth {
			res.Proved = false
			res.FailBox, res.FailValue = n.b, v
			if err != nil {
				res.Err = err.Error()
			}
			return res
		}
		// split the widest (relative to the root box) dimension
		best, bw := "", -1.0
		for _, a := range vars {
			w := (n.b[a.Key].Hi - n.b[a.Key].Lo) / math.Max(box[a.Key].Hi-box[a.Key].Lo, 1e-300)
			if w > bw {
				best, bw = a.Key, w
			}
		}
		iv := n.b[best]
		mid := iv.Lo + (iv.Hi-iv.Lo)/2
		l, r := map[string]Iv{}, map[string]Iv{}
		for k, x := range n.b {
			l[k], r[k] = x, x
		}
		l[best] = Iv{iv.Lo, mid}
		r[best] = Iv{mid, iv.Hi}
		work = append(work, node{l, n.d + 1}, node{r, n.d + 1})
	}
	return res
}

func boxString(b map[string]Iv) string {
	var ks []string
	for k := range b {
		ks = append(ks, k)
	}
	sort.Strings(ks)
	s := ""
	for _, k := range ks {
		s += fmt.Sprintf("%s∈[%.6g, %.6g] ", k, b[k].Lo, b[k].Hi)
	}
	return s
}

func isConstPoly(p Poly) bool { _, ok := p.Const(); return ok }

func dbgArgs(a *Atom, env ivEnv) string {
	s := ""
	for _, q := range a.Args {
		v, err := evalIv(q, env)
		s += fmt.Sprintf(" arg=[%g,%g] err=%v", v.Lo, v.Hi, err)
	}
	return s
}
