package main

// C04.R10 — "missing optional values replaced by the mean of the adjacent
// days" (added after the mutation sweep of hermes/weather_input.go: 164 of 248
// syntactic mutants of replaceMissingValues were not reported; R4 only said
// WHICH cell is written, R8 only that a sentinel cannot survive in three of
// the series).
//
// One iteration of the day loop is evaluated path by path (no execution: the
// symbolic walker of walk.go forks at every branch).  On every feasible path
// and for every optional series X (mean temperature, saturation deficit,
// sunshine hours) a store to X[y][d] must be
//
//   · the mean ½·X[p] + ½·X[n] of the records p, n adjacent to (y, d) —
//     p = (y, d−1) provably with d−1 ≥ 0, or (y−1, MaxYearDays[y−1]−1) provably
//     with d = 0 and y ≥ 1;  n = (y, d+1) provably with d+1 < T, or (y+1, 0)
//     provably with d+1 ≥ T and y+1 < number of years — under the guards
//     "X[y][d] is the sentinel, X[p] and X[n] are not"; or
//   · 0 under a guard that the value is the sentinel.
//
// "Provably" is decided by Fourier–Motzkin refutation (linsat.go) of the
// path condition together with the negated bound.  All four adjacency cases
// must occur for each series, T must be the length of the visited year and the
// two loops must visit every record of every loaded year.

import (
	"fmt"
	"go/ast"
	"go/token"
	"os"
	"sort"
	"strings"
)

func c04GapFill(p *Prog, r *Report) {
	r.Rule("C04.R10", "gap filling is the mean of the adjacent days: on every feasible path through one iteration of the day loop a store to an optional series is either ½·(previous record + next record) of the same series — previous = the day before in the same year, or the last record of the previous year exactly on the first day; next = the day after, or the first record of the following year exactly on the last day; never outside the loaded years — guarded by 'this value is missing, both neighbours are not', or 0 guarded by 'missing', and for mean temperature and saturation deficit only where the path excludes a day with a record on both sides (every loaded year having at least one record); all four adjacency cases occur; the year length is that of the visited year; the loops visit every record", 11)
	fi := p.Funcs["hermes.WeatherDataShared.replaceMissingValues"]
	x := walked(p, "hermes.WeatherDataShared.replaceMissingValues")
	if fi == nil || x == nil {
		r.Ob("gap-fill", "-", false, "replaceMissingValues not found")
		return
	}
	ls := loopsOf(x)
	if len(ls) < 2 || ls[0].Var == nil || ls[1].Var == nil {
		r.Ob("gap-fill:loops", p.Pos(fi.Decl.Pos()), false, "year/day loop nest not recognised")
		return
	}
	// loops visit every record
	loY, hiY, unitY, whyY := loopBounds(x, ls[0])
	loD, hiD, unitD, whyD := loopBounds(x, ls[1])
	var nyears *Atom
	if fi.Decl.Type.Params != nil && len(fi.Decl.Type.Params.List) > 0 && len(fi.Decl.Type.Params.List[0].Names) > 0 {
		nyears = varAtom(fi.Decl.Type.Params.List[0].Names[0].Name)
	}
	okY := whyY == "" && unitY && loY.IsZero() && nyears != nil && stripVersions(hiY).Equal(PAtom(nyears).Sub(PInt(1)))
	r.Ob("gap-fill:years", p.Pos(ls[0].Stmt.Pos()), okY, fmt.Sprintf("year loop runs %s..%s step one: %v (must be 0..number of years − 1) %s", polyOr(loY), polyOr(hiY), unitY, whyY))
	// T = MaxYearDays[y]
	yA, dA := ls[0].Var, ls[1].Var
	yP := PAtom(yA)
	okT := false
	detT := "day loop bound not recognised"
	if whyD == "" {
		T := stripVersions(hiD).Add(PInt(1))
		want := cellP("s.MaxYearDays", yP)
		okT = T.Equal(stripVersions(want)) && unitD && loD.IsZero()
		detT = fmt.Sprintf("day loop runs %s..%s − 1 step one: %v (the bound must be the length of the visited year, %s)", polyOr(loD), T, unitD, want)
	}
	r.Ob("gap-fill:days", p.Pos(ls[1].Stmt.Pos()), okT, detT)
	// the bound as written in the loop header (the path evaluation starts from a blank state, where it is a plain local)
	inner, _ := ls[1].Stmt.(*ast.ForStmt)
	if inner == nil {
		return
	}
	tName := ""
	if be, ok := inner.Cond.(*ast.BinaryExpr); ok {
		for _, side := range []ast.Expr{be.X, be.Y} {
			if id, ok := side.(*ast.Ident); ok && id.Name != dA.Root {
				tName = id.Name
			}
		}
	}
	if tName == "" {
		r.Ob("gap-fill:bound", p.Pos(inner.Pos()), false, "the day loop's bound is not a local variable")
		return
	}
	// path by path
	_, ends := forkBody(p, fi, inner)
	// forkBody names locals after the variable: rebuild y, index, T, yrz atoms by name
	yv, dv, Tv := pVar(yA.Root), pVar(dA.Root), pVar(tName)
	nv := PAtom(nyears)
	none := Poly{}
	if len(fi.Decl.Type.Params.List) > 1 && len(fi.Decl.Type.Params.List[1].Names) > 0 {
		none = pVar(fi.Decl.Type.Params.List[1].Names[0].Name)
	} else if len(fi.Decl.Type.Params.List[0].Names) > 1 {
		none = pVar(fi.Decl.Type.Params.List[0].Names[1].Name)
	}
	refuted := func(st *State, P Poly, op token.Token) bool {
		return !satisfiable(st.guards, cmpCond(P, op))
	}
	hasGuard := func(st *State, P Poly, op token.Token) bool {
		for _, g := range flattenGuards(st.guards) {
			if g.Kind != "cmp" {
				continue
			}
			gp := stripVersions(g.P)
			if g.Op == op && (gp.Equal(P) || gp.Equal(P.Neg())) {
				return true
			}
		}
		return false
	}
	type agg struct {
		means, zeros, leaves int
		cases                map[string]bool
		bad                  []string
	}
	series := []string{"TMP", "VERD", "SUND"}
	res := map[string]*agg{}
	for _, s := range series {
		res[s] = &agg{cases: map[string]bool{}}
	}
	feasible := 0
	for _, st := range ends {
		if !satisfiable(st.guards) {
			continue
		}
		feasible++
		for _, s := range series {
			a := res[s]
			root := "s." + s
			for _, cv := range storedCells(st, root) {
				a.leaves++
				add := func(msg string) {
					if os.Getenv("HV_DEBUG_GAP") != "" {
						fmt.Println("BAD", s, msg, "\n    ", guardKeys(st.guards))
					}
					if len(a.bad) < 3 {
						a.bad = append(a.bad, msg)
					} else if len(a.bad) == 3 {
						a.bad = append(a.bad, "…")
					}
				}
				if len(cv.idx) != 2 || !cv.idx[0].Equal(yv) || !cv.idx[1].Equal(dv) {
					add(fmt.Sprintf("store to %s[%s] instead of the visited record", s, idxKey(cv.idx)))
					continue
				}
				v := stripVersions(cv.val)
				if v.IsZero() {
					a.zeros++
					// guarded by "this value is the sentinel": the tested value is the visited cell itself or the mean just stored into it
					ok := false
					for _, g := range flattenGuards(st.guards) {
						if g.Kind != "cmp" || g.Op != token.EQL {
							continue
						}
						gp := stripVersions(g.P)
						for _, tested := range []Poly{none.Sub(gp), none.Add(gp)} {
							if tested.Equal(cellP(root, yv, dv)) {
								ok = true
							}
							if len(tested.T) == 2 && tested.MentionsRoot(root) && !tested.MentionsAtom(none.single().M[0].A) {
								ok = true // the freshly stored mean, checked above for its own form
							}
						}
					}
					if !ok {
						add("0 stored without a test that the visited value is the sentinel")
					}
					// for mean temperature and saturation deficit the zero is only for a value without two neighbours
					if s != "SUND" {
						prevExists := &Cond{Kind: "or", Sub: []*Cond{cmpCond(dv.Sub(PInt(1)), token.GEQ), cmpCond(yv.Sub(PInt(1)), token.GEQ)}}
						nextExists := &Cond{Kind: "or", Sub: []*Cond{cmpCond(dv.Add(PInt(1)).Sub(Tv), token.LSS), cmpCond(yv.Add(PInt(1)).Sub(nv), token.LSS)}}
						if satisfiable(st.guards, cmpCond(dv, token.GEQ), cmpCond(yv, token.GEQ), cmpCond(yv.Sub(nv), token.LSS), cmpCond(cellP("s.MaxYearDays", yv.Sub(PInt(1))).Sub(PInt(1)), token.GEQ), prevExists, nextExists) {
							add("0 stored on a path that does not exclude a day with a record before and after it (such a gap is to be filled with their mean, not with 0)")
						}
					}
					continue
				}
				// mean of two cells of the same series
				if len(v.T) != 2 {
					add("stored value " + clip(v.String(), 80) + " is neither 0 nor the mean of two records")
					continue
				}
				type rec struct{ yi, di Poly }
				var recs []rec
				okForm := true
				for _, t := range v.T {
					if t.C.Cmp(ratFrac(1, 2)) != 0 || len(t.M) != 1 || t.M[0].E != 1 || t.M[0].A.Kind != "cell" || t.M[0].A.Root != root || len(t.M[0].A.Idx) != 2 {
						okForm = false
						continue
					}
					recs = append(recs, rec{t.M[0].A.Idx[0], t.M[0].A.Idx[1]})
				}
				if !okForm || len(recs) != 2 {
					add("stored value " + clip(v.String(), 80) + " is not ½·(record + record) of the same series")
					continue
				}
				a.means++
				var prevCase, nextCase string
				for _, rc := range recs {
					switch {
					case rc.yi.Equal(yv) && rc.di.Equal(dv.Sub(PInt(1))):
						prevCase = "prev-same-year"
						if !refuted(st, dv.Sub(PInt(1)), token.LSS) {
							add("the day before is used although the path does not exclude the first day of the year")
						}
					case rc.yi.Equal(yv.Sub(PInt(1))) && rc.di.Equal(cellP("s.MaxYearDays", yv.Sub(PInt(1))).Sub(PInt(1))):
						prevCase = "prev-year-end"
						if !refuted(st, dv.Sub(PInt(1)), token.GEQ) {
							add("the previous year's last record is used on a day that is not the first of the year")
						}
						if !refuted(st, yv.Sub(PInt(1)), token.LSS) {
							add("the previous year's last record is used although the path does not exclude the first loaded year")
						}
					case rc.yi.Equal(yv) && rc.di.Equal(dv.Add(PInt(1))):
						nextCase = "next-same-year"
						if !refuted(st, dv.Add(PInt(1)).Sub(Tv), token.GEQ) {
							add("the day after is used although the path does not exclude the last day of the year")
						}
					case rc.yi.Equal(yv.Add(PInt(1))) && rc.di.IsZero():
						nextCase = "next-year-start"
						if !refuted(st, dv.Add(PInt(1)).Sub(Tv), token.LSS) {
							add("the following year's first record is used on a day that is not the last of the year")
						}
						if !refuted(st, yv.Add(PInt(1)).Sub(nv), token.GEQ) {
							add("the following year's first record is used although the path does not exclude the last loaded year")
						}
					default:
						add(fmt.Sprintf("record [%s][%s] is not adjacent to the visited day", rc.yi, rc.di))
					}
					if !hasGuard(st, none.Sub(cellP(root, rc.yi, rc.di)), token.NEQ) {
						add(fmt.Sprintf("the mean uses %s[%s][%s] without testing that it is not the sentinel", s, rc.yi, rc.di))
					}
				}
				if prevCase == "" || nextCase == "" {
					add("the mean is not taken over one record before and one after: " + clip(v.String(), 90))
				} else {
					a.cases[prevCase] = true
					a.cases[nextCase] = true
				}
				if !hasGuard(st, none.Sub(cellP(root, yv, dv)), token.EQL) {
					add("the mean overwrites a value that was not tested to be the sentinel")
				}
			}
		}
	}
	for _, s := range series {
		a := res[s]
		var cs []string
		for c := range a.cases {
			cs = append(cs, c)
		}
		sort.Strings(cs)
		ok := len(a.bad) == 0 && a.means > 0
		r.Ob("gap-fill:"+s+":stores", p.Pos(inner.Pos()), ok, fmt.Sprintf("%d stores on %d feasible paths (%d means, %d zeros)%s", a.leaves, feasible, a.means, a.zeros, problems(a.bad)))
		r.Ob("gap-fill:"+s+":cases", p.Pos(inner.Pos()), len(cs) == 4, fmt.Sprintf("adjacency cases reached with a mean: %s (all of previous-day, previous-year-end, next-day, next-year-start must occur: otherwise a gap on the first or last day of a year is not filled from its real neighbour)", strings.Join(cs, ", ")))
		r.Ob("gap-fill:"+s+":zero", p.Pos(inner.Pos()), a.zeros > 0, fmt.Sprintf("%d paths end with the 'missing → 0' fallback", a.zeros))
	}
}

// c04Dispatch (C04.R6): the yearly reload in the day loop uses, for every
// weather layout, the loader that the start-up used for that layout: the
// one-file-per-year reader is called again exactly for the layout it was
// called for at the start, and the year lookup runs for every layout.
func c04Dispatch(p *Prog, r *Report) {
	x := walked(p, "hermes.HermesSession.Run")
	if x == nil {
		return
	}
	day := dayLoop(x)
	if day == nil {
		return
	}
	fmtAtomRoot := "driConfig.WeatherFileFormat"
	var eval func(c *Cond, k int64) tri
	eval = func(c *Cond, k int64) tri {
		switch c.Kind {
		case "const":
			if c.Val {
				return triT
			}
			return triF
		case "not":
			return triNot(eval(c.Sub[0], k))
		case "and":
			res := triT
			for _, s := range c.Sub {
				switch eval(s, k) {
				case triF:
					return triF
				case triU:
					res = triU
				}
			}
			return res
		case "or":
			res := triF
			for _, s := range c.Sub {
				switch eval(s, k) {
				case triT:
					return triT
				case triU:
					res = triU
				}
			}
			return res
		case "cmp":
			if !c.P.MentionsRoot(fmtAtomRoot) {
				return triU
			}
			q := stripVersions(c.P).Subst(func(a *Atom) (Poly, bool) {
				if a.Root == fmtAtomRoot {
					return PInt(k), true
				}
				return Poly{}, false
			})
			v, ok := q.Const()
			if !ok {
				return triU
			}
			sg := v.Sign()
			b := false
			switch c.Op {
			case token.EQL:
				b = sg == 0
			case token.NEQ:
				b = sg != 0
			case token.LSS:
				b = sg < 0
			case token.LEQ:
				b = sg <= 0
			case token.GTR:
				b = sg > 0
			case token.GEQ:
				b = sg >= 0
			}
			if b {
				return triT
			}
			return triF
		}
		return triU
	}
	reach := func(e *Event, k int64) bool {
		for _, g := range e.Guards {
			if eval(g, k) == triF {
				return false
			}
		}
		return true
	}
	formats := func(name string, inLoop bool) string {
		set := map[int64]bool{}
		n := 0
		for _, e := range x.Events {
			if e.Kind != "call" || e.Name != name || e.InLoop(day) != inLoop {
				continue
			}
			n++
			for k := int64(0); k <= 2; k++ {
				if reach(e, k) {
					set[k] = true
				}
			}
		}
		if n == 0 {
			return "never called"
		}
		s := ""
		for k := int64(0); k <= 2; k++ {
			if set[k] {
				s += fmt.Sprint(k)
			}
		}
		return "{" + s + "}"
	}
	startPerYear, rollPerYear := formats("hermes.WetterK", false), formats("hermes.WetterK", true)
	startLoad, rollLoad := formats("hermes.LoadYear", false), formats("hermes.LoadYear", true)
	ok := startPerYear == rollPerYear && startLoad == rollLoad && strings.HasPrefix(startPerYear, "{") && startLoad == "{012}"
	r.Ob("reload-dispatch", p.Pos(day.Stmt.Pos()), ok, fmt.Sprintf("weather layouts for which the one-file-per-year reader is called: at the start %s, at the yearly reload %s; for which the year lookup runs: at the start %s, at the reload %s (must agree, the lookup for all three layouts)", startPerYear, rollPerYear, startLoad, rollLoad))
}
