package main

// C08.R10 — the root-water uptake of a day adds up to at most the potential
// transpiration (added after the mutation sweep of Evatra's uptake section:
// 268 of 428 syntactic mutants were not reported; the support rule R3 says
// where uptake may be non-zero, not how much there is in total).
//
// Distribution: TP[i] = TRAMAX · LURED · w_i / WEFF with w_i = WUEFF[i]·WUDICH[i]
// exactly the term accumulated into WEFF, so Σ TP = TRAMAX · LURED ≤ TRAMAX
// once LURED is capped at 1.  Redistribution: a layer hands TREST (capped at
// its own uptake, only when positive) to the layers below in proportion
// w_j / WEFFREST, where WEFFREST is WEFF minus the weights of the layers
// already visited: what the lower layers gain is at most what the layer loses.

import (
	"fmt"
	"go/token"
	"strings"
)

// factorsOf returns the factors of a single-term polynomial.
func factorsOf(q Poly) (*Term, bool) {
	t := q.single()
	return t, t != nil
}

func c08UptakeTotal(p *Prog, r *Report, x *Exec) {
	r.Rule("C08.R10", "uptake adds up to at most the potential transpiration: the per-layer uptake is potential × air-deficit factor × (layer weight / sum of weights) with the weight that was accumulated into the sum, the air-deficit factor is capped at 1; in the redistribution a layer loses exactly the amount handed down, the amount is capped at the layer's uptake and only handed down when positive, each lower layer gains amount × its weight / remaining weight, and the remaining weight is the sum minus the weights of the layers visited so far", 7)
	tp := "GlobalVarsMain.TP"
	// (i) the weight accumulation
	var acc *Event
	for _, e := range x.Events {
		if e.Kind == "assign" && e.Local != nil && e.Local.Name() == "WEFF" && len(e.Loops) == 1 {
			d := e.Val.Sub(e.Old)
			if d.MentionsRoot("GlobalVarsMain.WUDICH") {
				acc = e
			}
		}
	}
	if acc == nil {
		r.Ob("weights:sum", "-", false, "accumulation of the layer weights (root activity × root density) not found")
		return
	}
	LA := acc.Loops[0]
	wAcc := stripVersions(acc.Val.Sub(acc.Old))
	wOf := func(idx Poly) Poly {
		return wAcc.Subst(func(a *Atom) (Poly, bool) {
			if a == LA.Var {
				return idx, true
			}
			return Poly{}, false
		})
	}
	// weight shape: WUEFF[i]·WUDICH[i]
	okW := false
	if t, ok := factorsOf(wAcc); ok && len(t.M) == 2 && t.C.Cmp(ratInt(1)) == 0 {
		okW = true
		for _, f := range t.M {
			if f.A.Kind != "cell" || len(f.A.Idx) != 1 || !f.A.Idx[0].Equal(PAtom(LA.Var)) || f.E != 1 {
				okW = false
			}
		}
	}
	r.Ob("weights:sum", p.Pos(acc.Pos), okW && len(inLoopGuards(acc, LA)) == 0, fmt.Sprintf("sum of weights grows by %s for every visited layer, unconditionally", clip(wAcc.String(), 80)))
	// (ii) distribution
	var dist *Event
	for _, e := range x.Events {
		if e.Kind == "assign" && e.Root == tp && len(e.Loops) == 1 && e.Val.MentionsRoot("GlobalVarsMain.WUDICH") && !e.Val.MentionsRoot(tp) {
			dist = e
		}
	}
	if dist == nil {
		r.Ob("distribution", "-", false, "store of the per-layer potential uptake not found")
		return
	}
	okD := false
	det := clip(stripVersions(dist.Val).String(), 120)
	if t, ok := factorsOf(stripVersions(dist.Val)); ok && t.C.Cmp(ratInt(1)) == 0 {
		var sumInv, lured, tramax bool
		rest := PInt(1)
		for _, f := range t.M {
			switch {
			case f.E == -1 && f.A.Root == "WEFF":
				sumInv = true
			case f.E == 1 && f.A.Kind == "cell" && f.A.Root == "GlobalVarsMain.LURED":
				lured = true
			case f.E == 1 && f.A.Root == "TRAMAX":
				tramax = true
			default:
				q := PAtom(f.A)
				for k := 1; k < f.E; k++ {
					q = q.Mul(PAtom(f.A))
				}
				if f.E < 0 {
					q = PInt(1).Div(PAtom(f.A))
				}
				rest = rest.Mul(q)
			}
		}
		okD = sumInv && lured && tramax && rest.Equal(stripVersions(wOf(dist.Idx[0])))
		det = fmt.Sprintf("TP[%s] = TRAMAX · LURED · (%s) / WEFF (divided by the sum: %v, air-deficit factor: %v, potential: %v; the weight must be the accumulated one for the same layer: %s)", dist.Idx[0], clip(rest.String(), 60), sumInv, lured, tramax, clip(stripVersions(wOf(dist.Idx[0])).String(), 60))
	}
	r.Ob("distribution", p.Pos(dist.Pos), okD, det)
	// (iii) air-deficit factor capped at 1 before the distribution
	capL := false
	for _, e := range x.Events {
		if e.Kind == "assign" && e.Root == "GlobalVarsMain.LURED" && e.Seq < dist.Seq && isCapStore(e) && e.Val.Equal(PInt(1)) {
			// the cap must apply on every path that reaches the distribution: its only own guard is the cap test
			capL = true
		}
	}
	r.Ob("air-deficit:cap", p.Pos(dist.Pos), capL, fmt.Sprintf("the air-deficit factor is capped at 1 before it scales the uptake: %v", capL))
	// (iv) redistribution
	var take, give, dec *Event
	for _, e := range x.Events {
		if e.Kind != "assign" {
			continue
		}
		if e.Root == tp && len(e.Loops) == 1 && e.Seq > dist.Seq {
			d := e.Val.Sub(e.Old)
			if t, ok := factorsOf(d); ok && len(t.M) == 1 && t.M[0].A.Root == "TREST" {
				take = e
			}
		}
		if e.Root == tp && len(e.Loops) == 2 && e.Seq > dist.Seq && e.Val.Sub(e.Old).MentionsRoot("GlobalVarsMain.WUDICH") {
			give = e
		}
		if e.Local != nil && e.Local.Name() == "WEFFREST" && len(e.Loops) == 1 && e.Seq > dist.Seq {
			dec = e
		}
	}
	if take == nil || give == nil || dec == nil {
		r.Ob("redistribution", "-", false, fmt.Sprintf("redistribution not recognised (layer debit: %v, lower-layer credit: %v, remaining-weight update: %v)", take != nil, give != nil, dec != nil))
		return
	}
	LO := take.Loops[0]
	k := take.Idx[0]
	dt := take.Val.Sub(take.Old)
	t0, _ := factorsOf(dt)
	rest := t0.M[0].A
	r.Ob("redistribution:debit", p.Pos(take.Pos), t0.C.Cmp(ratInt(-1)) == 0 && t0.M[0].E == 1, fmt.Sprintf("ΔTP[%s] = %s (the layer must lose exactly the amount handed down)", k, dt))
	// remaining weight: decremented by the visited layer's weight, unconditionally, before the credit
	dd := stripVersions(dec.Val.Sub(dec.Old))
	okDec := dd.Add(stripVersions(wOf(k))).IsZero() && len(inLoopGuards(dec, LO)) == 0 && dec.Seq < give.Seq
	r.Ob("redistribution:remaining", p.Pos(dec.Pos), okDec, fmt.Sprintf("remaining weight changes by %s per visited layer (must be minus that layer's accumulated weight %s, unconditionally, before it is used)", clip(dd.String(), 70), clip(stripVersions(wOf(k)).String(), 50)))
	// credit: ΔTP[j] · R / TREST ≡ w_j, with R the decremented remaining weight
	dg := give.Val.Sub(give.Old)
	R := dec.Val
	j := give.Idx[0]
	wantG := stripVersions(PAtom(rest).Mul(wOf(j)).Div(R))
	okG := stripVersions(dg).Equal(wantG)
	r.Ob("redistribution:credit", p.Pos(give.Pos), okG, fmt.Sprintf("ΔTP[%s] = %s (must be amount × accumulated weight of the credited layer / remaining weight = %s: the credits then add up to at most the amount)", j, clip(stripVersions(dg).String(), 110), clip(wantG.String(), 110)))
	// credited layers: from the layer below the debited one down to the common bound
	LI := give.Loops[1]
	_, hiO, unitO, whyO := loopBounds(x, LO)
	loI, hiI, unitI, whyI := loopBounds(x, LI)
	okRng := whyO == "" && whyI == "" && unitO && unitI && stripVersions(hiO).Equal(stripVersions(hiI)) && LO.Var != nil && LI.Var != nil &&
		loI.Equal(PAtom(LO.Var).Add(PInt(1))) && j.Sub(PAtom(LI.Var)).Equal(k.Sub(PAtom(LO.Var)))
	r.Ob("redistribution:range", p.Pos(LI.Stmt.Pos()), okRng, fmt.Sprintf("credited layers run from the layer below the debited one (%s) to %s, the bound of the outer sweep (%s), with the same index offset", polyOr(loI), polyOr(hiI), polyOr(hiO)))
	// amount: capped at the layer's uptake, handed down only when positive
	capT, posT := false, false
	for _, e := range x.Events {
		if e.Kind == "assign" && e.Local != nil && e.Local.Name() == rest.Root && e.InLoop(LO) && isCapStore(e) && stripVersions(e.Val).Equal(stripVersions(cellP(tp, k))) {
			capT = true
		}
	}
	for _, g := range inLoopGuards(give, LO) {
		if g.Kind == "cmp" && g.Op == token.GTR {
			if t, ok := factorsOf(g.P); ok && len(t.M) == 1 && t.M[0].A == rest && t.C.Sign() > 0 {
				posT = true
			}
		}
	}
	r.Ob("redistribution:amount", p.Pos(take.Pos), capT && posT, fmt.Sprintf("amount capped at the layer's own uptake: %v; credited to lower layers only when positive: %v", capT, posT))
	_ = strings.Join
}
