package main

import (
	"fmt"
	"go/ast"
	"go/constant"
	"go/token"
	"go/types"
	"sort"
	"strings"

	"golang.org/x/tools/go/ssa"
)

func init() { register("C12", checkC12) }

// dateTextRules are the rules of the text ↔ day-number helpers that every reader of dated input and every
// writer of dated output goes through (schedules, rotation, groundwater series, record dates); properties
// quantified over "all date formats" or over dates in the files share them under their own rule ids.
func dateTextRules(p *Prog, r *Report, prefix string) {
	c12Leap(p, r, prefix+"a")
	c12LeapThreshold(p, r)
	c12ForwardArms(p, r, prefix+"b")
	c12Formats(p, r, prefix+"c")
	c12Century(p, r)
}

func checkC12(p *Prog, r *Report) {
	c12Tables(p, r, "C12.R1")
	c12Leap(p, r, "C12.R2")
	c12LeapThreshold(p, r)
	c12InverseDayOfYear(p, r)
	c12Formats(p, r, "C12.R3")
	c12Century(p, r)
	c12Closures(p, r)
	c12InverseShape(p, r)
	c12ForwardArms(p, r, "C12.R6")
	c12Extract(p, r)
	c12Wiring(p, r)
	c12CenturyRule(p, r)
}

func intArrayLit(info *types.Info, body ast.Node, name string) ([]int64, token.Pos) {
	var out []int64
	var pos token.Pos
	ast.Inspect(body, func(n ast.Node) bool {
		as, ok := n.(*ast.AssignStmt)
		if !ok || len(as.Lhs) != 1 || len(as.Rhs) != 1 || out != nil {
			return true
		}
		id, ok := as.Lhs[0].(*ast.Ident)
		if !ok || id.Name != name {
			return true
		}
		cl, ok := as.Rhs[0].(*ast.CompositeLit)
		if !ok {
			return true
		}
		for _, el := range cl.Elts {
			if tv, ok := info.Types[el]; ok && tv.Value != nil {
				if v, ok := constant.Int64Val(tv.Value); ok {
					out = append(out, v)
				}
			}
		}
		pos = as.Pos()
		return true
	})
	return out, pos
}

var monthLen = []int64{31, 28, 31, 30, 31, 30, 31, 31, 30, 31, 30, 31}

func c12Tables(p *Prog, r *Report, rule string) {
	r.Rule(rule, "month tables agree: the forward table is the cumulative sum of the month lengths before each month, the inverse table the cumulative sum including each month (inverse[i] = forward[i+1], last = 365), and the deprecated converter uses the same table", 3)
	check := func(key, which string, want []int64) {
		fi := p.Funcs[key]
		if fi == nil {
			r.Ob("table:"+key, "-", false, key+" not found")
			return
		}
		got, pos := intArrayLit(fi.Pkg.TypesInfo, fi.Decl.Body, "MT")
		ok := len(got) == len(want)
		for i := 0; ok && i < len(want); i++ {
			ok = got[i] == want[i]
		}
		r.Ob("table:"+strings.TrimPrefix(key, "hermes."), p.Pos(pos), ok, fmt.Sprintf("%s month table %v (must be %v)", which, got, want))
	}
	var before, incl []int64
	c := int64(0)
	for _, m := range monthLen {
		before = append(before, c)
		c += m
		incl = append(incl, c)
	}
	check("hermes.DateConverter", "forward", before)
	check("hermes.datumOld", "deprecated forward", before)
	check("hermes.KalenderDate", "inverse", incl)
}

// walkLit walks the first function literal of fi (the returned converter).
func walkLit(p *Prog, fi *FuncInfo) *Exec {
	ls := lits(fi)
	if len(ls) == 0 {
		return nil
	}
	x := NewExec(p, fi)
	x.RunBody(ls[0].Body)
	return x
}

// idivArgs collects the arguments a of every idiv(a, d) / mod(a, d) atom.
func divArgs(q Poly, fn string, d int64, out map[string]Poly) {
	q.walkAtoms(func(a *Atom) {
		if a.Kind == "call" && a.Fn == fn && len(a.Args) == 2 {
			if c, ok := a.Args[1].ConstInt(); ok && c == d {
				out[a.Args[0].String()] = a.Args[0]
			}
		}
	})
}

func c12Leap(p *Prog, r *Report, rule string) {
	r.Rule(rule, "leap-rule agreement between the two directions: with the year offsets read from the code (forward: internal year = calendar year − 1900; inverse: calendar year = internal year + 1901) both directions count leap days with the same divisor of the same elapsed-year quantity, test the leap year with the same modulus of the same year, use 365-day years, and shift the table from March on", 6)
	ffi := p.Funcs["hermes.DateConverter"]
	if ffi == nil {
		r.Ob("forward", "-", false, "DateConverter not found")
		return
	}
	fx := walkLit(p, ffi)
	ix := walked(p, "hermes.KalenderDate")
	if fx == nil || ix == nil {
		r.Ob("walk", "-", false, "converters not analysable")
		return
	}
	// forward: masDat value
	var mas Poly
	var masPos token.Pos
	var yf *Atom // forward internal year atom
	for _, e := range fx.Events {
		if e.Kind == "assign" && e.Local != nil && e.Local.Name() == "masDat" {
			mas, masPos = e.Val, e.Pos
		}
	}
	if mas.T == nil {
		r.Ob("forward:masDat", "-", false, "assignment of the day number not found")
		return
	}
	fdiv := map[string]Poly{}
	divArgs(mas, "idiv", 4, fdiv)
	for _, a := range fdiv {
		if t := a.Add(PInt(1)).single(); t != nil && len(t.M) == 1 {
			yf = t.M[0].A
		}
	}
	if yf == nil || len(fdiv) != 1 {
		r.Ob("forward:leap-count", p.Pos(masPos), false, fmt.Sprintf("leap-day count of the forward direction is not a single (Y−1)/4 term: %v", keysOfPoly(fdiv)))
		return
	}
	Y := PAtom(yf)
	want := Y.Sub(PInt(1)).Scale(ratInt(365)).Add(PCall("idiv", Y.Sub(PInt(1)), PInt(4)))
	rest := mas.Sub(want)
	r.Ob("forward:day-number", p.Pos(masPos), !rest.MentionsAtom(yf), fmt.Sprintf("day number = (Y−1)·365 + (Y−1)/4 + day-of-year; remainder %s must not depend on the year", clip(rest.String(), 120)))
	// the day of the year handed out next to the day number is the very remainder of the day number: one
	// definition, no cap — 31 December of a leap year is day 366 (a cap at 365 makes it equal to 30 December)
	nz := 0
	okz := true
	var zpos token.Pos
	var zval Poly
	for _, e := range fx.Events {
		if e.Kind == "assign" && e.Local != nil && e.Local.Name() == "ztDat" {
			nz++
			zpos, zval = e.Pos, e.Val
			if !e.Val.Equal(rest) {
				okz = false
			}
		}
	}
	r.Ob("forward:day-of-year", p.Pos(zpos), nz == 1 && okz, fmt.Sprintf("day of year = %s, defined %d time(s); must be defined once as the year-independent remainder of the day number (%s)", clip(polyOr(zval), 80), nz, clip(rest.String(), 80)))
	// forward leap test: mod(Y,4) == 0 guards the table shift; shift applies to months >= 3
	shiftOK, leapGuard := false, false
	for _, e := range fx.Events {
		if e.Kind == "assign" && e.Root == "MT" && len(e.Loops) > 0 {
			d := e.Val.Sub(e.Old)
			if d.Equal(PInt(1)) {
				L := e.Loops[len(e.Loops)-1]
				// index i-1 with guard i >= 3
				if L.Var != nil && e.Idx[0].Equal(PAtom(L.Var).Sub(PInt(1))) && guardedBy(e, PAtom(L.Var).Sub(PInt(3)), token.GEQ) {
					shiftOK = true
				}
				if guardedBy(e, PCall("mod", Y, PInt(4)), token.EQL) {
					leapGuard = true
				}
			}
		}
	}
	r.Ob("forward:leap-shift", p.Pos(masPos), shiftOK && leapGuard, fmt.Sprintf("in a leap year (Y mod 4 == 0: %v) the table entries of months >= 3 are shifted by one day: %v", leapGuard, shiftOK))
	// year offsets
	offF, okF := int64(0), false
	for _, e := range fx.Events {
		if e.Kind == "assign" && e.Local != nil && e.Local.Name() == yf.Root {
			d := e.Val.Sub(e.Old)
			if c, ok := d.ConstInt(); ok && c < -1000 {
				offF, okF = -c, true
			}
		}
	}
	offI, okI := int64(0), false
	var yi *Atom
	for _, e := range ix.Events {
		if e.Kind == "assign" && e.Local != nil && e.Local.Name() == "year" {
			for _, t := range e.Val.T {
				if len(t.M) == 1 && t.C.Cmp(ratInt(1)) == 0 {
					yi = t.M[0].A
				}
			}
			if yi != nil {
				if c, ok := e.Val.Sub(PAtom(yi)).ConstInt(); ok {
					offI, okI = c, true
				}
			}
		}
	}
	if !okF || !okI {
		r.Ob("year-offsets", "-", false, "year offsets of the two directions not found")
		return
	}
	delta := offI - offF // Yf = Yi + delta
	r.Ob("year-offsets", p.Pos(masPos), delta == 1, fmt.Sprintf("forward internal year = calendar − %d, inverse calendar = internal + %d ⇒ forward year = inverse year + %d", offF, offI, delta))
	// inverse: all idiv(·,4) and mod(·,4) arguments, normalised to "the inverse year variable" regardless of its version
	norm := func(q Poly) Poly {
		return q.Subst(func(a *Atom) (Poly, bool) {
			if yi != nil && a.Root == yi.Root && (a.Kind == "phi" || a.Kind == "var" || a.Kind == "loop" || a.Kind == "call") && a != yi {
				return Poly{}, false
			}
			return Poly{}, false
		})
	}
	_ = norm
	idiv := map[string]Poly{}
	imod := map[string]Poly{}
	i365 := map[string]Poly{}
	for _, e := range ix.Events {
		for _, q := range append([]Poly{e.Val}, condPolys(e.Guards)...) {
			divArgs(q, "idiv", 4, idiv)
			divArgs(q, "mod", 4, imod)
			divArgs(q, "idiv", 365, i365)
			divArgs(q, "mod", 365, i365)
		}
	}
	// express every argument relative to the elapsed-years estimate E = idiv(MASDAT,365) (or E−1 after correction)
	est := PCall("idiv", pVar("MASDAT"), PInt(365))
	rel := func(a Poly) (int64, bool) {
		// a is E + c, or a φ of {E, E−1} + c
		d := a.Sub(est)
		if c, ok := d.ConstInt(); ok {
			return c, true
		}
		// φ atom: resolve arms
		for _, at := range phiAtoms(a) {
			arms := ix.Phis[at.Key]
			if len(arms) == 2 {
				c0 := resolvePhi(ix, a, 0).Sub(est)
				c1 := resolvePhi(ix, a, 1).Sub(est)
				v0, ok0 := c0.ConstInt()
				v1, ok1 := c1.ConstInt()
				if ok0 && ok1 && (v0-v1 == 1 || v1-v0 == 1) {
					// corrected estimate: report the offset relative to the variable itself (max of the two = uncorrected)
					if v0 > v1 {
						return v0, true
					}
					return v1, true
				}
			}
		}
		return 0, false
	}
	var offs []int64
	okAll := true
	for _, a := range idiv {
		c, ok := rel(a)
		if !ok {
			okAll = false
			continue
		}
		offs = append(offs, c)
	}
	sort.Slice(offs, func(i, j int) bool { return offs[i] < offs[j] })
	// forward counts leap days of (Yf − 1) = (Yi + delta − 1); the inverse year variable is the estimate (offset 0): expect offset delta−1
	good := okAll && len(offs) > 0
	for _, c := range offs {
		if c != delta-1 {
			good = false
		}
	}
	r.Ob("inverse:leap-count", p.Pos(ix.P.Funcs["hermes.KalenderDate"].Decl.Pos()), good, fmt.Sprintf("the inverse divides by 4 the year quantities {estimate%+v}; the forward direction counts leap days of (year−1) = inverse year %+d: every leap-day count and the year-estimate correction must use that same quantity", offs, delta-1))
	var moffs []int64
	for _, a := range imod {
		if c, ok := rel(a); ok {
			moffs = append(moffs, c)
		} else {
			moffs = append(moffs, -999)
		}
	}
	goodm := len(moffs) > 0
	for _, c := range moffs {
		if c != delta {
			goodm = false
		}
	}
	r.Ob("inverse:leap-test", p.Pos(ix.P.Funcs["hermes.KalenderDate"].Decl.Pos()), goodm, fmt.Sprintf("the inverse tests (inverse year %+v) mod 4; the forward tests its year = inverse year %+d", moffs, delta))
	r.Ob("inverse:year-length", p.Pos(ix.P.Funcs["hermes.KalenderDate"].Decl.Pos()), len(i365) == 1, fmt.Sprintf("year estimate and remainder divide the day number by 365 only: %v", keysOfPoly(i365)))
}

func condPolys(gs []*Cond) []Poly {
	var out []Poly
	for _, g := range flattenGuards(gs) {
		condWalk(g, func(c *Cond) {
			if c.Kind == "cmp" {
				out = append(out, c.P)
			}
		})
	}
	return out
}

func condWalk(c *Cond, f func(*Cond)) {
	f(c)
	for _, s := range c.Sub {
		condWalk(s, f)
	}
}

func keysOfPoly(m map[string]Poly) []string {
	var out []string
	for k := range m {
		out = append(out, k)
	}
	sort.Strings(out)
	return out
}

// ---------------------------------------------------------------- R3 formats

func c12Formats(p *Prog, r *Report, rule string) {
	r.Rule(rule, "format symmetry: every date-format constant has a case in the parser and in the renderer; day/month are extracted and rendered in the same order; short formats add and remove the same century (100), long formats the same base year", 6)
	// the constants of DateFormat
	var consts []string
	scope := p.Hermes.Types.Scope()
	for _, n := range scope.Names() {
		if c, ok := scope.Lookup(n).(*types.Const); ok {
			if named, ok := c.Type().(*types.Named); ok && named.Obj().Name() == "DateFormat" {
				consts = append(consts, n)
			}
		}
	}
	sort.Strings(consts)
	type arm struct {
		order string // "DM" or "MD"
		short bool
		pos   token.Pos
	}
	parseArms := map[string]arm{}
	renderArms := map[string]arm{}
	if fi := p.Funcs["hermes.DateConverter"]; fi != nil {
		info := fi.Pkg.TypesInfo
		ast.Inspect(fi.Decl.Body, func(n ast.Node) bool {
			cc, ok := n.(*ast.CaseClause)
			if !ok || len(cc.List) != 1 {
				return true
			}
			id, ok := cc.List[0].(*ast.Ident)
			if !ok {
				return true
			}
			for _, s := range cc.Body {
				as, ok := s.(*ast.AssignStmt)
				if !ok || len(as.Lhs) != 4 || len(as.Rhs) != 1 {
					continue
				}
				call, ok := as.Rhs[0].(*ast.CallExpr)
				if !ok || len(call.Args) != 2 {
					continue
				}
				a := arm{pos: cc.Pos()}
				l0, l1 := types.ExprString(as.Lhs[0]), types.ExprString(as.Lhs[1])
				if l0 == "TG" && l1 == "MON" {
					a.order = "DM"
				} else if l0 == "MON" && l1 == "TG" {
					a.order = "MD"
				}
				if tv, ok := info.Types[call.Args[1]]; ok && tv.Value != nil {
					a.short = constant.BoolVal(tv.Value)
				}
				parseArms[id.Name] = a
			}
			return true
		})
	}
	if fi := p.Funcs["hermes.KalenderConverter"]; fi != nil {
		ast.Inspect(fi.Decl.Body, func(n ast.Node) bool {
			cc, ok := n.(*ast.CaseClause)
			if !ok || len(cc.List) != 1 {
				return true
			}
			id, ok := cc.List[0].(*ast.Ident)
			if !ok {
				return true
			}
			ast.Inspect(cc, func(m ast.Node) bool {
				call, ok := m.(*ast.CallExpr)
				if !ok || len(call.Args) != 4 {
					return true
				}
				a := arm{pos: cc.Pos()}
				a0, a1 := types.ExprString(call.Args[1]), types.ExprString(call.Args[2])
				if a0 == "day" && a1 == "month" {
					a.order = "DM"
				} else if a0 == "month" && a1 == "day" {
					a.order = "MD"
				}
				a.short = strings.Contains(types.ExprString(call.Args[0]), "Short")
				renderArms[id.Name] = a
				return true
			})
			return true
		})
	}
	for _, c := range consts {
		pa, okP := parseArms[c]
		ra, okR := renderArms[c]
		ok := okP && okR && pa.order != "" && pa.order == ra.order && pa.short == ra.short
		pos := "-"
		if okP {
			pos = p.Pos(pa.pos)
		}
		r.Ob("format:"+c, pos, ok, fmt.Sprintf("parser: present=%v order=%s short=%v; renderer: present=%v order=%s short=%v", okP, pa.order, pa.short, okR, ra.order, ra.short))
	}
	if len(consts) < 4 {
		r.Ob("formats", "-", false, fmt.Sprintf("only %d DateFormat constants found", len(consts)))
	}
	// century handling: forward short arms add 100 under YR < cent; renderer subtracts 100 under YR > 99
	if fi := p.Funcs["hermes.DateConverter"]; fi != nil {
		fx := walkLit(p, fi)
		add := 0
		for _, e := range fx.Events {
			if e.Kind == "assign" && e.Local != nil && e.Local.Name() == "YR" {
				if c, ok := e.Val.Sub(e.Old).ConstInt(); ok && c == 100 {
					add++
				}
			}
		}
		r.Ob("century:parse", p.Pos(fi.Decl.Pos()), add == 2, fmt.Sprintf("short formats add one century (100) below the split year in %d arms (expected 2)", add))
	}
	if fi := p.Funcs["hermes.KalenderConverter"]; fi != nil {
		fx := walkLit(p, fi)
		sub := 0
		for _, e := range fx.Events {
			if e.Kind == "call" && e.Name == "fmt.Sprintf" && len(e.Args) == 4 {
				// year argument Y−100 under the guard Y > 99 (Y − 99 > 0)
				for _, g := range flattenGuards(e.Guards) {
					if g.Kind == "cmp" && g.Op == token.GTR && e.Args[3].Equal(g.P.Sub(PInt(1))) {
						sub++
					}
				}
			}
		}
		r.Ob("century:render", p.Pos(fi.Decl.Pos()), sub == 2, fmt.Sprintf("short formats render year−1900−100 above 99 in %d arms (expected 2)", sub))
	}
}

// ---------------------------------------------------------------- R4 closures carry no mutable state

func c12Closures(p *Prog, r *Report) {
	r.Rule("C12.R4", "the converter closures carry no mutable state between calls: the functions returned by the converter factories never store through a captured variable (a month table corrected for a leap year must be local to one conversion)", 3)
	s := p.SSA()
	n := 0
	for _, fn := range s.fns {
		par := fn.Parent()
		if par == nil {
			continue
		}
		switch par.Name() {
		case "DateConverter", "KalenderConverter", "LangTagConverter":
		default:
			continue
		}
		n++
		bad := ""
		for _, b := range fn.Blocks {
			for _, in := range b.Instrs {
				var addr ssa.Value
				switch t := in.(type) {
				case *ssa.Store:
					addr = t.Addr
				case *ssa.MapUpdate:
					addr = t.Map
				}
				if addr == nil {
					continue
				}
				if fv, ok := addrRoot(addr).(*ssa.FreeVar); ok {
					bad = fmt.Sprintf("%s: store through captured variable %s", instrPos(p, in), fv.Name())
				}
			}
		}
		r.Ob("closure:"+par.Name(), p.Pos(fn.Pos()), bad == "", orStr(bad, "no store through captured variables"))
	}
	if n < 3 {
		r.Ob("closures", "-", false, fmt.Sprintf("%d converter closures found, expected 3", n))
	}
}

// c12LeapThreshold: in the inverse direction the leap correction must start
// with the leap day itself, i.e. for day-of-year values above the table entry
// that ends February (the inverse table's second entry).
func c12LeapThreshold(p *Prog, r *Report) {
	fi := p.Funcs["hermes.KalenderDate"]
	x := walked(p, "hermes.KalenderDate")
	if fi == nil || x == nil {
		r.Ob("inverse:leap-threshold", "-", false, "KalenderDate not found")
		return
	}
	mt, _ := intArrayLit(fi.Pkg.TypesInfo, fi.Decl.Body, "MT")
	if len(mt) < 2 {
		r.Ob("inverse:leap-threshold", p.Pos(fi.Decl.Pos()), false, "inverse month table not found")
		return
	}
	found := false
	for _, e := range x.Events {
		if e.Kind != "assign" || e.Local == nil || e.Local.Name() != "KORR" {
			continue
		}
		if c, ok := e.Val.ConstInt(); !ok || c != 1 {
			continue
		}
		found = true
		// guard: TG − c > 0 where TG = MASDAT − 365·YR − YR/4
		var thr *int64
		for _, g := range flattenGuards(e.Guards) {
			if g.Kind != "cmp" {
				continue
			}
			if !g.P.MentionsAtom(varAtom("MASDAT")) {
				continue
			}
			// constant term of the polynomial, with the sign that makes MASDAT's coefficient +1
			coef, _ := coeffOf(g.P, varAtom("MASDAT"))
			cf, isC := coef.ConstInt()
			if !isC || (cf != 1 && cf != -1) {
				continue
			}
			cst := int64(0)
			for _, t := range g.P.T {
				if len(t.M) == 0 && t.C.IsInt() {
					cst = t.C.Num().Int64()
				}
			}
			op := g.Op
			if cf == -1 {
				cst = -cst
				op = flipOp(op)
			}
			// TG + cst op 0
			var v int64
			switch op {
			case token.GTR:
				v = -cst // TG > −cst
			case token.GEQ:
				v = -cst - 1 // TG ≥ −cst  ⇔  TG > −cst−1
			default:
				continue
			}
			thr = &v
		}
		if thr == nil {
			r.Ob("inverse:leap-threshold", p.Pos(e.Pos), false, "the leap correction is not guarded by a lower bound on the day of year")
			continue
		}
		r.Ob("inverse:leap-threshold", p.Pos(e.Pos), *thr == mt[1], fmt.Sprintf("leap correction applies for day of year > %d; February ends at table entry %d, so 29 February is day %d and must be corrected", *thr, mt[1], mt[1]+1))
	}
	if !found {
		r.Ob("inverse:leap-threshold", p.Pos(fi.Decl.Pos()), false, "no leap correction (KORR = 1) found in the inverse conversion")
	}
}

// c12InverseDayOfYear: in the inverse direction the day of year is the day number minus the days of the
// elapsed years; the 365-day term and the leap-day term must count the same (corrected) number of years.
func c12InverseDayOfYear(p *Prog, r *Report) {
	x := walked(p, "hermes.KalenderDate")
	if x == nil {
		return
	}
	found := false
	for _, e := range x.Events {
		if e.Kind != "assign" || e.Local == nil || e.Local.Name() != "TG" || !e.Val.MentionsAtom(varAtom("MASDAT")) {
			continue
		}
		found = true
		var yr *Atom
		var leapArg Poly
		nIdiv := 0
		for _, t := range e.Val.sortedTerms() {
			if len(t.M) != 1 || t.M[0].E != 1 {
				continue
			}
			a := t.M[0].A
			if t.C.Cmp(ratInt(-365)) == 0 {
				yr = a
			}
			if a.Kind == "call" && a.Fn == "idiv" && len(a.Args) == 2 && t.C.Cmp(ratInt(-1)) == 0 {
				nIdiv++
				leapArg = a.Args[0]
			}
		}
		ok := yr != nil && nIdiv == 1 && leapArg.Equal(PAtom(yr))
		r.Ob("inverse:day-of-year", p.Pos(e.Pos), ok, fmt.Sprintf("day of year = %s: the leap days subtracted must be those of the same year count as the 365-day term (a value cached before the year-estimate correction is one leap day off at the end of leap years)", clip(e.Val.String(), 120)))
	}
	if !found {
		r.Ob("inverse:day-of-year", "-", false, "day-of-year computation not found in the inverse conversion")
	}
}

// c12Century: every place that splits a two-digit year at the configured
// century year must use the same comparison (the configuration documents
// "1950 -> 50": years below the split belong to 20xx).
func c12Century(p *Prog, r *Report) {
	type site struct {
		pos token.Pos
		op  string
	}
	var sites []site
	for _, key := range []string{"hermes.DateConverter", "hermes.LangTagConverter", "hermes.datumOld"} {
		fi := p.Funcs[key]
		if fi == nil {
			continue
		}
		info := fi.Pkg.TypesInfo
		// variables that hold the split: the int parameter and locals assigned from it
		split := map[types.Object]bool{}
		for _, f := range fi.Decl.Type.Params.List {
			if isIntegerType(info.TypeOf(f.Type)) {
				for _, n := range f.Names {
					split[info.Defs[n]] = true
				}
			}
		}
		ast.Inspect(fi.Decl.Body, func(n ast.Node) bool {
			if as, ok := n.(*ast.AssignStmt); ok && len(as.Lhs) == 1 && len(as.Rhs) == 1 {
				if id, ok := as.Rhs[0].(*ast.Ident); ok && split[info.Uses[id]] {
					if l, ok := as.Lhs[0].(*ast.Ident); ok {
						if o := info.Defs[l]; o != nil {
							split[o] = true
						}
					}
				}
			}
			return true
		})
		ast.Inspect(fi.Decl.Body, func(n ast.Node) bool {
			be, ok := n.(*ast.BinaryExpr)
			if !ok {
				return true
			}
			lx, lok := be.X.(*ast.Ident)
			ry, rok := be.Y.(*ast.Ident)
			switch {
			case rok && split[info.Uses[ry]] && (be.Op == token.LSS || be.Op == token.LEQ || be.Op == token.GTR || be.Op == token.GEQ):
				sites = append(sites, site{be.Pos(), "year " + be.Op.String() + " split"})
			case lok && split[info.Uses[lx]] && (be.Op == token.LSS || be.Op == token.LEQ || be.Op == token.GTR || be.Op == token.GEQ):
				sites = append(sites, site{be.Pos(), "year " + flipOp(be.Op).String() + " split"})
			}
			return true
		})
	}
	ops := map[string]int{}
	for _, s := range sites {
		ops[s.op]++
	}
	for _, s := range sites {
		ok := len(ops) == 1 && s.op == "year < split"
		r.Ob("century-split", p.Pos(s.pos), ok, fmt.Sprintf("two-digit year is moved to the next century when %s; all %d sites must agree and follow the documented convention (\"1950 -> 50\": year < split) — found %v", s.op, len(sites), ops))
	}
	if len(sites) < 3 {
		r.Ob("century-split", "-", false, fmt.Sprintf("only %d century-split comparisons found, 4 confirmed", len(sites)))
	}
}
