package main

// C01.R6 — profile sweeps of the water kernel (added after a systematic
// mutation sweep of Water showed that the per-iteration identities of R3 say
// nothing about WHICH layers an iteration visits).
//
// The per-iteration conservation identities telescope into the balance of the
// whole profile only if every layer 0..N−1 and every interface 1..N is defined
// exactly by the cascade on every path: the cascade loop visits the layers in
// unit steps from the first to the last one, each path through its body stores
// the layer's new water and its lower-interface flux, and a path that leaves
// the loop early first fills the rest of the profile with "unchanged water,
// zero flux".  The same holds for the start-of-step storage (both sub-step
// arms), the hand-over of the previous sub-step's end state, and the final
// conversion back to water contents.

import (
	"fmt"
	"go/ast"
	"go/token"
	"go/types"
	"sort"
	"strings"
)

type sweepTarget struct {
	name   string
	root   string
	prefix []int64 // constant leading indices (WATER[1][·] → {1})
	lo, hi Poly    // wanted first and last cell index
	// identity required of "filler" stores (tail loops and plain copy arms): nil = none
	filler func(idx Poly) Poly
}

func matchTarget(e *Event, t sweepTarget) (Poly, bool) {
	if e.Kind != "assign" || e.Root != t.root || len(e.Idx) != len(t.prefix)+1 {
		return Poly{}, false
	}
	for i, c := range t.prefix {
		if v, ok := e.Idx[i].ConstInt(); !ok || v != c {
			return Poly{}, false
		}
	}
	return e.Idx[len(t.prefix)], true
}

// offsetFrom returns c with idx ≡ v + c.
func offsetFrom(idx Poly, v *Atom) (int64, bool) {
	if v == nil {
		return 0, false
	}
	d := idx.Sub(PAtom(v))
	return d.ConstInt()
}

// sweepDefines checks that loop L defines every cell lo..hi of the target on every path.
func sweepDefines(p *Prog, r *Report, x *Exec, L *LoopCtx, t sweepTarget, label string, fillerOwn bool) {
	pos := p.Pos(L.Stmt.Pos())
	lo, hi, unit, why := loopBounds(x, L)
	if why != "" || !unit {
		r.Ob(label+":range", pos, false, "not a unit-step counted loop: "+why)
		return
	}
	var own, tails []*Event
	for _, e := range x.Events {
		if !e.InLoop(L) {
			continue
		}
		if _, ok := matchTarget(e, t); !ok {
			continue
		}
		switch {
		case innermost(e, L):
			own = append(own, e)
		case len(e.Loops) >= 2 && e.Loops[len(e.Loops)-2] == L:
			tails = append(tails, e)
		}
	}
	if len(own) == 0 {
		r.Ob(label+":defined", pos, false, fmt.Sprintf("no store of %s in the loop", t.name))
		return
	}
	// (a) own-cell index v + c, the same c on all stores
	var c int64
	okIdx := true
	for i, e := range own {
		idx, _ := matchTarget(e, t)
		ci, ok := offsetFrom(idx, L.Var)
		if !ok || (i > 0 && ci != c) {
			okIdx = false
			r.Ob(label+":index", p.Pos(e.Pos), false, fmt.Sprintf("%s is stored at index %s, which is not 'loop variable + the constant used by the sibling stores'", t.name, idx))
		}
		c = ci
	}
	if !okIdx {
		return
	}
	first, last := stripVersions(lo.Add(PInt(c))), stripVersions(hi.Add(PInt(c)))
	r.Ob(label+":range", pos, first.Equal(t.lo) && last.Equal(t.hi), fmt.Sprintf("%s defined for cells %s .. %s (must be %s .. %s: a cell left out keeps the value of an earlier call or the zero of a fresh array)", t.name, first, last, t.lo, t.hi))
	// (b) the own stores cover every path through the body
	var fam [][]*Cond
	for _, e := range own {
		fam = append(fam, inLoopGuards(e, L))
	}
	okc, whyc := coversAllPaths(fam, nil)
	r.Ob(label+":every-path", pos, okc, fmt.Sprintf("every path through one iteration stores %s of the visited cell: %v %s", t.name, okc, whyc))
	// (c) each early exit is preceded, in its own arm, by a tail loop that fills the rest
	for _, b := range x.Events {
		if b.Kind != "break" || !innermost(b, L) {
			continue
		}
		bk := map[string]bool{}
		for _, g := range inLoopGuards(b, L) {
			bk[g.Key()] = true
		}
		okTail := false
		detail := "no loop fills the rest of the profile before the early exit"
		for _, e := range tails {
			if e.Seq > b.Seq {
				continue
			}
			L2 := e.Loops[len(e.Loops)-1]
			sub := true
			for _, g := range inLoopGuards(e, L) {
				if !bk[g.Key()] {
					sub = false
				}
			}
			if !sub {
				continue
			}
			idx, _ := matchTarget(e, t)
			c2, ok := offsetFrom(idx, L2.Var)
			lo2, hi2, unit2, why2 := loopBounds(x, L2)
			if !ok || why2 != "" || !unit2 {
				detail = "the filling loop is not a unit-step counted loop indexed by its own variable"
				continue
			}
			f0 := stripVersions(lo2.Add(PInt(c2)))
			f1 := stripVersions(hi2.Add(PInt(c2)))
			wantF0 := stripVersions(PAtom(L.Var).Add(PInt(c + 1)))
			okTail = f0.Equal(wantF0) && f1.Equal(t.hi)
			detail = fmt.Sprintf("before the early exit the cells %s .. %s are filled (must be visited cell + 1 = %s .. %s)", f0, f1, wantF0, t.hi)
			if okTail && t.filler != nil {
				want := t.filler(idx)
				if !stripVersions(e.Val).Equal(stripVersions(want)) {
					okTail = false
					detail += fmt.Sprintf("; filled with %s, must be %s", clip(stripVersions(e.Val).String(), 60), stripVersions(want))
				}
			}
			if okTail {
				break
			}
		}
		r.Ob(label+":early-exit", p.Pos(b.Pos), okTail, detail)
	}
	if fillerOwn && t.filler != nil {
		for _, e := range own {
			idx, _ := matchTarget(e, t)
			want := t.filler(idx)
			okf := stripVersions(e.Val).Equal(stripVersions(want))
			r.Ob(label+":copy", p.Pos(e.Pos), okf, fmt.Sprintf("%s[%s] = %s (must be %s)", t.name, idx, clip(stripVersions(e.Val).String(), 60), stripVersions(want)))
		}
	}
}

func c01Sweeps(p *Prog, r *Report) {
	r.Rule("C01.R6", "profile sweeps of the water kernel: on each arm of the surface-flux decision every layer 0..N−1 gets its new water and every interface 1..N its flux on every path (cascade loops visit first..last in unit steps, each path of an iteration stores both, an early exit first fills the rest with unchanged water and zero flux); the start-of-step storage is defined for every layer on both sub-step arms, later sub-steps start from the previous sub-step's end state, the final conversion covers every layer; the boundary-flux counters are booked on every sign of the boundary flux", 20)
	x := walked(p, "hermes.Water")
	if x == nil {
		r.Ob("Water", "-", false, "hermes.Water not found")
		return
	}
	wat := waterArrayRoot(x)
	if wat == "" {
		r.Ob("storage-array", "-", false, "local layer-storage array not found")
		return
	}
	N := cellP("GlobalVarsMain.N")
	zero := PZero()
	tW1 := sweepTarget{name: "new layer water", root: wat, prefix: []int64{1}, lo: zero, hi: N.Sub(PInt(1)), filler: func(idx Poly) Poly { return cellP(wat, PInt(0), idx) }}
	tQ := sweepTarget{name: "interface flux", root: "GlobalVarsMain.Q1", lo: PInt(1), hi: N, filler: func(idx Poly) Poly { return PZero() }}
	tW0 := sweepTarget{name: "start-of-step layer water", root: wat, prefix: []int64{0}, lo: zero, hi: N.Sub(PInt(1))}
	tWG0 := sweepTarget{name: "start-of-step water content", root: "GlobalVarsMain.WG", prefix: []int64{0}, lo: zero, hi: N.Sub(PInt(1)), filler: func(idx Poly) Poly { return cellP("GlobalVarsMain.WG", PInt(1), idx) }}
	tWG1 := sweepTarget{name: "end-of-step water content", root: "GlobalVarsMain.WG", prefix: []int64{1}, lo: zero, hi: N.Sub(PInt(1))}

	fluss := "GlobalVarsMain.FLUSS0"
	armOf := func(L *LoopCtx) string {
		if L.Entry == nil {
			return ""
		}
		pos, neg, any := false, false, false
		for _, g := range flattenGuards(L.Entry.guards) {
			if g.Kind == "cmp" && g.P.MentionsRoot(fluss) {
				any = true
				if isCmp(g, cellP(fluss), token.GTR) {
					pos = true
				}
				if isCmp(g, cellP(fluss), token.LSS) {
					neg = true
				}
			}
		}
		switch {
		case pos:
			return "infiltration"
		case neg:
			return "evaporation"
		case any:
			return "no-flux"
		}
		return ""
	}
	seenArm := map[string]bool{}
	var armGuards [][]*Cond
	var cascade []*LoopCtx
	for _, L := range loopsOf(x) {
		// top-level loops only
		top := false
		for _, e := range x.Events {
			if e.InLoop(L) && len(e.Loops) == 1 {
				top = true
				break
			}
		}
		if !top {
			continue
		}
		arm := armOf(L)
		if arm == "" {
			continue
		}
		stores := false
		for _, e := range x.Events {
			if e.InLoop(L) {
				if _, ok := matchTarget(e, tW1); ok {
					stores = true
				}
			}
		}
		if !stores {
			continue
		}
		seenArm[arm] = true
		cascade = append(cascade, L)
		var ag []*Cond
		for _, g := range flattenGuards(L.Entry.guards) {
			if !g.Loop {
				ag = append(ag, g)
			}
		}
		armGuards = append(armGuards, ag)
		sweepDefines(p, r, x, L, tW1, arm+":water", arm == "no-flux")
		sweepDefines(p, r, x, L, tQ, arm+":flux", arm == "no-flux")
	}
	for _, a := range []string{"infiltration", "evaporation", "no-flux"} {
		if !seenArm[a] {
			r.Ob(a+":water:defined", "-", false, "no loop defines the new layer water on the "+a+" arm")
		}
	}
	// an interface flux set by the cascade is not overwritten afterwards: outside the cascade loops only the
	// surface flux (index 0) is stored and the other interfaces are adjusted additively (sink, capillary rise)
	nOther := 0
	for _, e := range x.Events {
		if e.Kind != "assign" || e.Root != tQ.root || len(e.Idx) != 1 {
			continue
		}
		inCascade := false
		for _, L := range cascade {
			if e.InLoop(L) {
				inCascade = true
			}
		}
		if inCascade {
			continue
		}
		if c, ok := e.Idx[0].ConstInt(); ok && c == 0 {
			continue
		}
		nOther++
		additive := !stripVersions(e.Val.Sub(e.Old)).MentionsRoot(tQ.root)
		r.Ob("flux:no-later-overwrite", p.Pos(e.Pos), additive, fmt.Sprintf("store to interface flux [%s] outside the cascade adds to the value the cascade left there: %v (a plain overwrite detaches the flux from the water the cascade moved)", stripVersions(e.Idx[0]), additive))
	}
	okArms, whyArms := coversAllPaths(armGuards, nil)
	r.Ob("arms-cover", "-", okArms, fmt.Sprintf("the arms that define new water and fluxes cover every value of the surface flux: %v %s", okArms, whyArms))

	// start-of-step storage on both sub-step arms; later sub-steps take over the previous end state
	subd := ""
	if fi := p.Funcs["hermes.Water"]; fi != nil {
		ns := paramNames(fi.Decl)
		if len(ns) > 1 {
			subd = ns[1]
		}
	}
	var initGuards [][]*Cond
	nInit := 0
	for _, L := range loopsOf(x) {
		has := false
		for _, e := range x.Events {
			if innermost(e, L) && len(e.Loops) == 1 {
				if _, ok := matchTarget(e, tW0); ok {
					has = true
				}
			}
		}
		if !has {
			continue
		}
		nInit++
		first := false
		later := false
		var ag []*Cond
		if L.Entry != nil {
			for _, g := range flattenGuards(L.Entry.guards) {
				if g.Loop {
					continue
				}
				ag = append(ag, g)
				if g.Kind == "cmp" && subd != "" && g.P.Equal(pVar(subd).Sub(PInt(1))) {
					if g.Op == token.EQL {
						first = true
					}
					if g.Op == token.NEQ {
						later = true
					}
				}
			}
		}
		initGuards = append(initGuards, ag)
		name := "start"
		if first {
			name = "start:first-step"
		} else if later {
			name = "start:later-step"
		}
		sweepDefines(p, r, x, L, tW0, name, false)
		if later {
			sweepDefines(p, r, x, L, tWG0, "handover", true)
		}
	}
	if nInit > 0 {
		okI, whyI := coversAllPaths(initGuards, nil)
		r.Ob("start:arms-cover", "-", okI, fmt.Sprintf("the start-of-step storage is defined on every sub-step (%d sweeps): %v %s", nInit, okI, whyI))
	} else {
		r.Ob("start:defined", "-", false, "no sweep defines the start-of-step storage")
	}
	// final conversion
	nFin := 0
	for _, L := range loopsOf(x) {
		has := false
		for _, e := range x.Events {
			if innermost(e, L) && len(e.Loops) == 1 {
				if _, ok := matchTarget(e, tWG1); ok && e.Val.MentionsRoot(wat) {
					has = true
				}
			}
		}
		if has {
			nFin++
			uncond := true
			if L.Entry != nil {
				for _, g := range flattenGuards(L.Entry.guards) {
					if !g.Loop {
						uncond = false
					}
				}
			}
			sweepDefines(p, r, x, L, tWG1, "final", false)
			r.Ob("final:unconditional", p.Pos(L.Stmt.Pos()), uncond, fmt.Sprintf("the conversion back to water contents runs on every call: %v", uncond))
		}
	}
	if nFin != 1 {
		r.Ob("final:defined", "-", false, fmt.Sprintf("%d sweeps convert the layer water back to water contents, expected 1", nFin))
	}
	// boundary-flux counters: booked whatever the sign of the flux
	var fam [][]*Cond
	nb := 0
	for _, e := range x.Events {
		if e.Kind != "assign" || len(e.Loops) != 0 {
			continue
		}
		if e.Root != "GlobalVarsMain.SICKER" && e.Root != "GlobalVarsMain.CAPSUM" {
			continue
		}
		d := e.Val.Sub(e.Old)
		if d.MentionsRoot("GlobalVarsMain.Q1") {
			nb++
			var gs []*Cond
			for _, g := range flattenGuards(e.Guards) {
				if !g.Loop {
					gs = append(gs, g)
				}
			}
			fam = append(fam, gs)
		}
	}
	okB, whyB := coversAllPaths(fam, nil)
	r.Ob("boundary:every-sign", "-", nb >= 2 && okB, fmt.Sprintf("the flux through the reporting depth is booked (percolation or capillary counter) on every path: %d accumulations, covering: %v %s", nb, okB, whyB))
	_ = strings.Join
}

// ---------------------------------------------------------------- R8 the reporting depth lies inside the profile

// c01ReportingDepth: the boundary counters read the interface flux at the configured leaching depth.  Interface
// fluxes exist for the boundaries 0..N of the profile only; a deeper entry of the flux array is never written, so a
// leaching depth below a shallow profile reports no percolation at all while the water leaves through the profile
// bottom.  Demanded: the input routine, once the number of layers is known, caps the leaching depth at it (cap idiom,
// same block as the store of the layer count and after it, under no further condition), and nothing writes the
// leaching depth afterwards except the configuration reader.
func c01ReportingDepth(p *Prog, r *Report, rule string) {
	r.Rule(rule, "the depth at which the lower-boundary flux is reported lies inside the profile: after the number of layers is stored the input routine caps the leaching depth at it (cap idiom in the same block, under no further condition); the only other writers of the leaching depth are the state constructor and the configuration reader", 2)
	fi := p.Funcs["hermes.Input"]
	if fi == nil {
		r.Ob("leaching-depth:in-profile", "-", false, "hermes.Input not found")
		return
	}
	info := fi.Pkg.TypesInfo
	field := func(e ast.Expr) string {
		se, ok := e.(*ast.SelectorExpr)
		if !ok {
			return ""
		}
		sel, ok := info.Selections[se]
		if !ok || sel.Kind() != types.FieldVal {
			return ""
		}
		name, _ := namedStruct(sel.Recv())
		return name + "." + se.Sel.Name
	}
	found, ok, pos := false, false, "-"
	det := "no store of the number of layers found in hermes.Input"
	ast.Inspect(fi.Decl.Body, func(n ast.Node) bool {
		blk, isB := n.(*ast.BlockStmt)
		if !isB {
			return true
		}
		for i, st := range blk.List {
			as, isAs := st.(*ast.AssignStmt)
			if !isAs || len(as.Lhs) != 1 || field(as.Lhs[0]) != "GlobalVarsMain.N" {
				continue
			}
			found = true
			det = "the leaching depth is not capped at the number of layers after it is stored: for a profile shallower than the configured leaching depth the flux array is read beyond the last interface, percolation, capillary rise and N leaching are reported as 0"
			pos = p.Pos(as.Pos())
			for _, later := range blk.List[i+1:] {
				is, isIf := later.(*ast.IfStmt)
				if !isIf || is.Init != nil || is.Else != nil || len(is.Body.List) != 1 {
					continue
				}
				be, isBe := is.Cond.(*ast.BinaryExpr)
				if !isBe {
					continue
				}
				l, rr := field(be.X), field(be.Y)
				over := (l == "GlobalVarsMain.OUTN" && rr == "GlobalVarsMain.N" && be.Op == token.GTR) || (l == "GlobalVarsMain.N" && rr == "GlobalVarsMain.OUTN" && be.Op == token.LSS)
				cs, isCs := is.Body.List[0].(*ast.AssignStmt)
				if over && isCs && len(cs.Lhs) == 1 && len(cs.Rhs) == 1 && cs.Tok == token.ASSIGN && field(cs.Lhs[0]) == "GlobalVarsMain.OUTN" && field(cs.Rhs[0]) == "GlobalVarsMain.N" {
					ok, pos = true, p.Pos(is.Pos())
					det = "the leaching depth is capped at the number of layers right after it is stored"
				}
			}
		}
		return true
	})
	// the cap is the input routine's only store of the leaching depth
	nStores := 0
	ast.Inspect(fi.Decl.Body, func(n ast.Node) bool {
		switch t := n.(type) {
		case *ast.AssignStmt:
			for _, l := range t.Lhs {
				if field(l) == "GlobalVarsMain.OUTN" {
					nStores++
				}
			}
		case *ast.IncDecStmt:
			if field(t.X) == "GlobalVarsMain.OUTN" {
				nStores++
			}
		}
		return true
	})
	if ok && nStores != 1 {
		ok, det = false, fmt.Sprintf("the input routine stores the leaching depth %d times: besides the cap at the number of layers it must not change the configured value", nStores)
	}
	r.Ob("leaching-depth:in-profile", pos, found && ok, det)
	// writers
	var others []string
	for _, w := range p.Fields().Writers(FieldRef{"GlobalVarsMain", "OUTN"}) {
		switch {
		case w.Key == "hermes.Input", w.Key == "hermes.NewGlobalVarsMain", w.Key == "hermes.readConfig", strings.HasPrefix(w.Key, "hermes.NewDefault"):
		default:
			others = append(others, w.Key)
		}
	}
	sort.Strings(others)
	r.Ob("leaching-depth:writers", "-", len(others) == 0, fmt.Sprintf("writers of the leaching depth besides the constructor, the configuration reader and the input routine: %v", others))
}
