package main

// C17, the calculator's line counter (added after four independent seeded
// changes and one genuine defect all sat in lineCounter).
//
// R6 slice-relative positions: the result v of bytes.Index(B[lo:hi], sep)
// counts from lo; every element access B[e] that mentions v must add lo.
//
// R7 counting decision on the acyclic body of the scan loop: with I the
// search result, K the bytes carried over from the previous chunk (K ≥ 0),
// a found line break (I ≠ −1) closes a line with K+I bytes in front of it.
// On every path the counter goes up by one only if K+I ≥ 1 can hold, and
// every path that leaves it unchanged must exclude K+I ≥ 2 (two bytes in
// front of the break are a non-empty line whatever the carriage-return
// flag says).  The K+I = 1 case (a lone byte that may be a carriage return)
// is left to the flag and is not decided here.  At end of input the counter
// goes up exactly when bytes are still carried.

import (
	"fmt"
	"go/ast"
	"go/token"
	"go/types"
	"strings"
)

type affine struct {
	co map[types.Object]int
	c  int
	ok bool
}

func affOf(info *types.Info, e ast.Expr) affine {
	switch t := e.(type) {
	case *ast.ParenExpr:
		return affOf(info, t.X)
	case *ast.BasicLit:
		if tv, ok := info.Types[e]; ok && tv.Value != nil {
			if v, ok := constInt(tv); ok {
				return affine{co: map[types.Object]int{}, c: v, ok: true}
			}
		}
	case *ast.Ident:
		if tv, ok := info.Types[e]; ok && tv.Value != nil {
			if v, ok := constInt(tv); ok {
				return affine{co: map[types.Object]int{}, c: v, ok: true}
			}
		}
		if obj := info.Uses[t]; obj != nil {
			return affine{co: map[types.Object]int{obj: 1}, ok: true}
		}
	case *ast.BinaryExpr:
		if t.Op == token.ADD || t.Op == token.SUB {
			a, b := affOf(info, t.X), affOf(info, t.Y)
			if !a.ok || !b.ok {
				return affine{}
			}
			s := 1
			if t.Op == token.SUB {
				s = -1
			}
			r := affine{co: map[types.Object]int{}, c: a.c + s*b.c, ok: true}
			for k, v := range a.co {
				r.co[k] += v
			}
			for k, v := range b.co {
				r.co[k] += s * v
			}
			return r
		}
	}
	return affine{}
}

func constInt(tv types.TypeAndValue) (int, bool) {
	if tv.Value == nil {
		return 0, false
	}
	s := tv.Value.ExactString()
	n := 0
	neg := false
	for i, ch := range s {
		if i == 0 && ch == '-' {
			neg = true
			continue
		}
		if ch < '0' || ch > '9' {
			return 0, false
		}
		n = n*10 + int(ch-'0')
	}
	if neg {
		n = -n
	}
	return n, true
}

func (a affine) String() string {
	s := ""
	for k, v := range a.co {
		if v != 0 {
			s += fmt.Sprintf("%+d·%s ", v, k.Name())
		}
	}
	return s + fmt.Sprintf("%+d", a.c)
}

// sliceRelativeRule is generic over the in-scope packages.
func sliceRelativeRule(p *Prog, r *Report, rule string, fnKeys []string, min int) {
	r.Rule(rule, "slice-relative positions: the result of bytes/strings.Index*(B[lo:…], …) counts from lo; every element access B[e] whose index mentions that result must add lo (and lo must not be reassigned in between)", min)
	for _, key := range fnKeys {
		fi := p.Funcs[key]
		if fi == nil {
			r.Ob("fn:"+key, "-", false, "function "+key+" not found")
			continue
		}
		info := fi.Pkg.TypesInfo
		type search struct {
			v    types.Object
			base types.Object
			lo   affine
			pos  token.Pos
			loE  ast.Expr
		}
		var ss []search
		ast.Inspect(fi.Decl.Body, func(n ast.Node) bool {
			as, ok := n.(*ast.AssignStmt)
			if !ok || len(as.Lhs) != 1 || len(as.Rhs) != 1 {
				return true
			}
			call, ok := as.Rhs[0].(*ast.CallExpr)
			if !ok || len(call.Args) < 1 {
				return true
			}
			f := callee(info, call)
			if f == nil || f.Pkg() == nil || (f.Pkg().Path() != "bytes" && f.Pkg().Path() != "strings") {
				return true
			}
			if len(f.Name()) < 5 || (f.Name()[:5] != "Index" && (len(f.Name()) < 9 || f.Name()[:9] != "LastIndex")) {
				return true
			}
			se, ok := call.Args[0].(*ast.SliceExpr)
			if !ok || se.Low == nil {
				return true
			}
			bid, ok := se.X.(*ast.Ident)
			lid, ok2 := as.Lhs[0].(*ast.Ident)
			if !ok || !ok2 {
				return true
			}
			v := info.Uses[lid]
			if v == nil {
				v = info.Defs[lid]
			}
			ss = append(ss, search{v: v, base: info.Uses[bid], lo: affOf(info, se.Low), pos: as.Pos(), loE: se.Low})
			return true
		})
		for _, s := range ss {
			n := 0
			ast.Inspect(fi.Decl.Body, func(m ast.Node) bool {
				ie, ok := m.(*ast.IndexExpr)
				if !ok {
					return true
				}
				bid, ok := ie.X.(*ast.Ident)
				if !ok || info.Uses[bid] != s.base {
					return true
				}
				mentions := false
				ast.Inspect(ie.Index, func(k ast.Node) bool {
					if id, ok := k.(*ast.Ident); ok && info.Uses[id] == s.v {
						mentions = true
					}
					return true
				})
				if !mentions {
					return true
				}
				n++
				a := affOf(info, ie.Index)
				okk := a.ok && s.lo.ok
				detail := ""
				if okk {
					// a − v − lo must be constant
					d := affine{co: map[types.Object]int{}, c: a.c - s.lo.c, ok: true}
					for k, v := range a.co {
						d.co[k] += v
					}
					d.co[s.v] -= 1
					for k, v := range s.lo.co {
						d.co[k] -= v
					}
					for _, v := range d.co {
						if v != 0 {
							okk = false
						}
					}
					detail = fmt.Sprintf("%s[%s] with %s found in %s[%s:…]: index − position − lower bound = %s (must be a constant)", bid.Name, types.ExprString(ie.Index), s.v.Name(), bid.Name, types.ExprString(s.loE), d)
					// lo not reassigned between the search and the use
					if okk {
						ast.Inspect(fi.Decl.Body, func(k ast.Node) bool {
							if as, ok := k.(*ast.AssignStmt); ok && as.Pos() > s.pos && as.Pos() < ie.Pos() {
								for _, l := range as.Lhs {
									if id, ok := l.(*ast.Ident); ok {
										o := info.Uses[id]
										if o != nil && s.lo.co[o] != 0 {
											okk = false
											detail += "; the lower bound " + id.Name + " is reassigned between the search and this access"
										}
									}
								}
							}
							return true
						})
					}
				} else {
					detail = fmt.Sprintf("%s[%s]: index or lower bound %s is not an affine form over locals: cannot be judged", bid.Name, types.ExprString(ie.Index), types.ExprString(s.loE))
				}
				if !okk {
					detail += " — the byte inspected is not the one at the found position: after the first line of a chunk the carriage-return test looks at the wrong byte, so blank CRLF lines are counted and the printed ranges run past the last batch line"
				}
				r.Ob("rel:"+shortKey(key)+":"+bid.Name+"["+s.v.Name()+"]", p.Pos(ie.Pos()), okk, detail)
				return true
			})
			_ = n
		}
	}
}

func shortKey(k string) string {
	for i := len(k) - 1; i >= 0; i-- {
		if k[i] == '.' {
			return k[i+1:]
		}
	}
	return k
}

func c17LineCounter(p *Prog, r *Report) {
	sliceRelativeRule(p, r, "C17.R6", []string{"calcHermesBatch.lineCounter"}, 1)

	r.Rule("C17.R7", "counting decision of the line counter, per path of the scan-loop body: with I the search result and K ≥ 0 the bytes carried from the previous chunk, a path that raises the counter must allow K+I ≥ 1, a path on which a line break was found (I ≠ −1) and the counter is unchanged must exclude K+I ≥ 2; the carried count is reset when a break is found and positive when none is; at end of input the counter is raised exactly when bytes are carried", 5)
	key := "calcHermesBatch.lineCounter"
	fi := p.Funcs[key]
	x := walked(p, key)
	if fi == nil || x == nil {
		r.Ob("lineCounter", "-", false, key+" not found")
		return
	}
	info := fi.Pkg.TypesInfo
	// the search: local assigned from bytes.Index inside a loop
	var search *Event
	for _, e := range x.Events {
		if e.Kind == "assign" && e.Local != nil && len(e.Loops) >= 1 {
			if t := e.Val.single(); t != nil && len(t.M) == 1 && (t.M[0].A.Kind == "opq" || t.M[0].A.Kind == "call") && t.M[0].A.Fn == "bytes.Index" {
				search = e
			}
		}
	}
	if search == nil {
		r.Ob("search", p.Pos(fi.Decl.Pos()), false, "no 'v = bytes.Index(buf[lo:hi], sep)' inside a loop: the counter has a shape this rule does not know — undecided")
		return
	}
	L := search.Loops[len(search.Loops)-1]
	// the counter: the integer local returned as first result
	var counter types.Object
	ast.Inspect(fi.Decl.Body, func(n ast.Node) bool {
		if rs, ok := n.(*ast.ReturnStmt); ok && len(rs.Results) == 2 {
			if id, ok := rs.Results[0].(*ast.Ident); ok {
				counter = info.Uses[id]
			}
		}
		return true
	})
	if counter == nil {
		r.Ob("counter", p.Pos(fi.Decl.Pos()), false, "the returned line count is not a local variable")
		return
	}
	_, ends := forkBody(p, fi, L.Stmt)
	// identify I (search result atom) and K (carry: the int local, declared outside the loop, that is added to I)
	var carry types.Object
	var Iatom *Atom
	for _, st := range ends {
		for obj, v := range st.vars {
			if obj == search.Local {
				if t := v.single(); t != nil && len(t.M) == 1 {
					Iatom = t.M[0].A
				}
			}
		}
	}
	if Iatom == nil {
		r.Ob("search", p.Pos(search.Pos), false, "search result is not forwarded as an atom")
		return
	}
	I := PAtom(Iatom)
	// carry: a local declared outside the loop whose entry atom appears with I in some guard of a counter increment
	cand := map[types.Object]int{}
	for _, st := range ends {
		for _, g := range st.guards {
			condAtoms(g, func(a *Atom) {
				if a.Kind == "var" {
					for obj := range st.vars {
						if obj.Name() == a.Root && isIntegerType(obj.Type()) && !(obj.Pos() > L.Stmt.Pos() && obj.Pos() < L.Stmt.End()) && obj != counter {
							cand[obj]++
						}
					}
				}
			})
		}
	}
	best := 0
	for obj, n := range cand {
		if n > best {
			carry, best = obj, n
		}
	}
	if carry == nil {
		r.Ob("carry", p.Pos(L.Stmt.Pos()), false, "no carried byte count (integer local declared outside the scan loop and tested on the way to the increment) found — undecided")
		return
	}
	K := pVar(carry.Name())
	dom := []*Cond{cmpCond(K, token.GEQ), cmpCond(I.Add(PInt(1)), token.GEQ)}
	cnt0 := pVar(counter.Name())
	nFound, nNone := 0, 0
	for pi, st := range ends {
		if st.term == 1 {
			continue
		}
		cv, has := st.vars[counter]
		d := PZero()
		if has {
			d = cv.Sub(cnt0)
		}
		g := append(append([]*Cond{}, st.guards...), dom...)
		found := !satisfiable(g, cmpCond(I.Add(PInt(1)), token.EQL))
		none := !satisfiable(g, cmpCond(I.Add(PInt(1)), token.NEQ))
		label := fmt.Sprintf("path%d", pi)
		kv, hask := st.vars[carry]
		switch {
		case !satisfiable(g):
			continue // infeasible path
		case d.Equal(PInt(1)):
			ok := found && !satisfiable(g, cmpCond(K.Add(I), token.LEQ)) == true
			// a counted path must exclude the empty line K+I ≤ 0
			r.Ob("count:"+label, p.Pos(L.Stmt.Pos()), ok, fmt.Sprintf("[%s] counter +1: only after a line break was found (%v) and never for an empty line K+I ≤ 0 (excluded: %v)", guardKeys(st.guards), found, !satisfiable(g, cmpCond(K.Add(I), token.LEQ))))
			nFound++
		case d.IsZero() && found:
			ok := !satisfiable(g, cmpCond(K.Add(I).Sub(PInt(2)), token.GEQ))
			r.Ob("skip:"+label, p.Pos(L.Stmt.Pos()), ok, fmt.Sprintf("[%s] line break found, counter unchanged: a line with two or more bytes (K+I ≥ 2) must be impossible on this path: %v — otherwise a batch line whose break falls on a particular position of a read chunk is not counted and the last batch lines get no range", guardKeys(st.guards), ok))
			nFound++
		case d.IsZero() && none:
			nNone++
			ok := hask && !kv.IsZero()
			r.Ob("carry:"+label, p.Pos(L.Stmt.Pos()), ok, fmt.Sprintf("[%s] no line break in the rest of the chunk: the carried byte count becomes %s (must record the unread tail)", guardKeys(st.guards), polyOr(kv)))
		case d.IsZero():
			// path not decided on I: must satisfy the skip obligation as well
			ok := !satisfiable(append(g, cmpCond(I.Add(PInt(1)), token.NEQ)), cmpCond(K.Add(I).Sub(PInt(2)), token.GEQ))
			r.Ob("skip:"+label, p.Pos(L.Stmt.Pos()), ok, fmt.Sprintf("[%s] counter unchanged on a path that does not test the search result: K+I ≥ 2 with a found break must be impossible: %v", guardKeys(st.guards), ok))
		default:
			r.Ob("count:"+label, p.Pos(L.Stmt.Pos()), false, fmt.Sprintf("[%s] counter changes by %s in one iteration", guardKeys(st.guards), d))
		}
		// carry reset when a break was found
		if found && satisfiable(g) {
			ok := hask && kv.IsZero()
			r.Ob("reset:"+label, p.Pos(L.Stmt.Pos()), ok, fmt.Sprintf("[%s] after a found line break the carried byte count is %s (must be 0: the next line starts empty)", guardKeys(st.guards), polyOr(kv)))
		}
	}
	if nFound < 2 || nNone < 1 {
		r.Ob("paths", p.Pos(L.Stmt.Pos()), false, fmt.Sprintf("scan-loop body has %d found-break paths and %d no-break paths; expected at least 2 and 1", nFound, nNone))
	}
	// end of input: counter +1 guarded by carry > 0, on the path that returns without error
	okEOF := false
	for _, e := range x.Events {
		if e.Kind == "assign" && e.Local == counter && e.Val.Sub(e.Old).Equal(PInt(1)) && !e.InLoop(L) {
			hasCarry := false
			n := 0
			for _, g := range flattenGuards(e.Guards) {
				if g.Loop {
					continue
				}
				n++
				if g.Kind == "cmp" && g.Op == token.GTR {
					if t := g.P.single(); t != nil && len(t.M) == 1 && t.M[0].A.Root == carry.Name() && t.C.Cmp(ratInt(1)) == 0 {
						hasCarry = true
					}
				}
			}
			okEOF = hasCarry && n == 2
			r.Ob("eof", p.Pos(e.Pos), okEOF, fmt.Sprintf("at end of input the counter is raised under [%s] (must be: end of input and carried bytes > 0, nothing else)", guardKeys(e.Guards)))
		}
	}
	if !okEOF {
		r.Expect("eof", false, "increment of the counter for a last line without line break")
	}
}

// c17Output: what reaches the caller.  The ranges are collected in one string
// accumulator that is printed once after the loops: every formatted range must
// be APPENDED to that accumulator (a plain assignment keeps only the last
// range), and the accumulator printed is the one appended to.  The -size
// answer prints the line count when there are fewer lines than nodes and the
// node count otherwise.
func c17Output(p *Prog, r *Report) {
	r.Rule("C17.R8", "what is printed: every formatted range is appended to one string accumulator (declared empty) and that accumulator is printed after the loops; the -size answer prints the number of lines on the arm 'fewer lines than nodes' and the number of nodes on the other arm, through the same decision as the -list block", 6)
	fi := p.Funcs["calcHermesBatch.main"]
	if fi == nil {
		r.Ob("main", "-", false, "calcHermesBatch.main not found")
		return
	}
	info := fi.Pkg.TypesInfo
	isSprintf := func(e ast.Expr) bool {
		call, ok := e.(*ast.CallExpr)
		if !ok {
			return false
		}
		f := callee(info, call)
		return f != nil && f.Pkg() != nil && f.Pkg().Path() == "fmt" && f.Name() == "Sprintf"
	}
	var acc types.Object
	nApp := 0
	ast.Inspect(fi.Decl.Body, func(n ast.Node) bool {
		as, ok := n.(*ast.AssignStmt)
		if !ok || len(as.Lhs) != 1 || len(as.Rhs) != 1 {
			return true
		}
		lid, ok := as.Lhs[0].(*ast.Ident)
		if !ok {
			return true
		}
		has := false
		ast.Inspect(as.Rhs[0], func(m ast.Node) bool {
			if e, ok := m.(ast.Expr); ok && isSprintf(e) {
				has = true
			}
			return true
		})
		if !has {
			return true
		}
		nApp++
		obj := info.Uses[lid]
		appended := false
		switch as.Tok {
		case token.ADD_ASSIGN:
			appended = isSprintf(as.Rhs[0])
		case token.ASSIGN:
			// acc = acc + Sprintf(...)
			if be, ok := as.Rhs[0].(*ast.BinaryExpr); ok && be.Op == token.ADD {
				if x, ok := be.X.(*ast.Ident); ok && info.Uses[x] == obj && isSprintf(be.Y) {
					appended = true
				}
			}
		}
		same := acc == nil || acc == obj
		if acc == nil {
			acc = obj
		}
		r.Ob("appended", p.Pos(as.Pos()), appended && same && obj != nil, fmt.Sprintf("formatted range %s %s %s: appended to the accumulator: %v, same accumulator as the other ranges: %v (a plain assignment keeps only the last range)", lid.Name, as.Tok, clip(types.ExprString(as.Rhs[0]), 60), appended, same))
		return true
	})
	if nApp < 4 {
		r.Ob("appended", p.Pos(fi.Decl.Pos()), false, fmt.Sprintf("%d formatted ranges are stored, 4 confirmed (two per arm)", nApp))
	}
	// the accumulator starts empty and is what is printed
	if acc != nil {
		empty := false
		ast.Inspect(fi.Decl.Body, func(n ast.Node) bool {
			if ds, ok := n.(*ast.DeclStmt); ok {
				if gd, ok := ds.Decl.(*ast.GenDecl); ok {
					for _, sp := range gd.Specs {
						if vs, ok := sp.(*ast.ValueSpec); ok {
							for i, nm := range vs.Names {
								if info.Defs[nm] == acc {
									if len(vs.Values) == 0 {
										empty = true
									} else if bl, ok := vs.Values[i].(*ast.BasicLit); ok && bl.Value == `""` {
										empty = true
									}
								}
							}
						}
					}
				}
			}
			if as, ok := n.(*ast.AssignStmt); ok && as.Tok == token.DEFINE {
				for i, l := range as.Lhs {
					if id, ok := l.(*ast.Ident); ok && info.Defs[id] == acc && i < len(as.Rhs) {
						if bl, ok := as.Rhs[i].(*ast.BasicLit); ok && bl.Value == `""` {
							empty = true
						}
					}
				}
			}
			return true
		})
		printed := false
		ast.Inspect(fi.Decl.Body, func(n ast.Node) bool {
			call, ok := n.(*ast.CallExpr)
			if !ok || len(call.Args) != 1 {
				return true
			}
			f := callee(info, call)
			if f == nil || f.Pkg() == nil || f.Pkg().Path() != "fmt" || !strings.HasPrefix(f.Name(), "Print") {
				return true
			}
			if id, ok := call.Args[0].(*ast.Ident); ok && info.Uses[id] == acc {
				printed = true
			}
			return true
		})
		r.Ob("accumulator", p.Pos(fi.Decl.Pos()), empty && printed, fmt.Sprintf("the accumulator starts empty: %v; it is the value printed: %v", empty, printed))
	}
	// -size: if lines/nodes == 0 { Print(lines) } else { Print(nodes) }
	okSize := false
	det := "the -size decision (if lines/nodes == 0 … else …) with one print per arm was not found"
	ast.Inspect(fi.Decl.Body, func(n ast.Node) bool {
		ifs, ok := n.(*ast.IfStmt)
		if !ok || ifs.Else == nil {
			return true
		}
		be, ok := ifs.Cond.(*ast.BinaryExpr)
		if !ok || be.Op != token.EQL {
			return true
		}
		q, ok := be.X.(*ast.BinaryExpr)
		if !ok || q.Op != token.QUO {
			return true
		}
		if bl, ok := be.Y.(*ast.BasicLit); !ok || bl.Value != "0" {
			return true
		}
		printsOnly := func(b ast.Stmt) (string, bool) {
			blk, ok := b.(*ast.BlockStmt)
			if !ok || len(blk.List) != 1 {
				return "", false
			}
			es, ok := blk.List[0].(*ast.ExprStmt)
			if !ok {
				return "", false
			}
			call, ok := es.X.(*ast.CallExpr)
			if !ok || len(call.Args) != 1 {
				return "", false
			}
			f := callee(info, call)
			if f == nil || f.Pkg() == nil || f.Pkg().Path() != "fmt" || !strings.HasPrefix(f.Name(), "Print") {
				return "", false
			}
			return types.ExprString(call.Args[0]), true
		}
		a, okA := printsOnly(ifs.Body)
		b, okB := printsOnly(ifs.Else)
		if !okA || !okB {
			return true
		}
		num, den := types.ExprString(q.X), types.ExprString(q.Y)
		okSize = a == num && b == den
		det = fmt.Sprintf("-size: if %s/%s == 0 prints %s, otherwise prints %s (must be the line count, then the node count)", num, den, a, b)
		return true
	})
	r.Ob("size-printed", p.Pos(fi.Decl.Pos()), okSize, det)
}
