package main

// C17, the calculator's line counter (added after four independent seeded
// changes and one genuine defect all sat in lineCounter).
//
// R6 slice-relative positions: the result v of bytes.Index(B[lo:hi], sep)
// counts from lo; every element access B[e] that mentions v must add lo.
//
// R7 counting decision on the acyclic body of the scan loop: with I the
// search result, K the bytes carried over from the previous chunk (K ≥ 0),
// a found line break (I ≠ −1) closes a line with K+I bytes in front of it.
// On every path the counter goes up by one only if K+I ≥ 1 can hold, and
// every path that leaves it unchanged must exclude K+I ≥ 2 (two bytes in
// front of the break are a non-empty line whatever the carriage-return
// flag says).  The K+I = 1 case (a lone byte that may be a carriage return)
// is left to the flag and is not decided here.  At end of input the counter
// goes up exactly when bytes are still carried.

import (
	"fmt"
	"go/ast"
	"go/token"
	"go/types"
	"strings"
)

type affine struct {
	co map[types.Object]int
	c  int
	ok bool
}

func affOf(info *types.Info, e ast.Expr) affine {
	switch t := e.(type) {
	case *ast.ParenExpr:
		return affOf(info, t.X)
	case *ast.BasicLit:
		if tv, ok := info.Types[e]; ok && tv.Value != nil {
			if v, ok := constInt(tv); ok {
				return affine{co: map[types.Object]int{}, c: v, ok: true}
			}
		}
	case *ast.Ident:
		if tv, ok := info.Types[e]; ok && tv.Value != nil {
			if v, ok := constInt(tv); ok {
				return affine{co: map[types.Object]int{}, c: v, ok: true}
			}
		}
		if obj := info.Uses[t]; obj != nil {
			return affine{co: map[types.Object]int{obj: 1}, ok: true}
		}
	case *ast.BinaryExpr:
		if t.Op == token.ADD || t.Op == token.SUB {
			a, b := affOf(info, t.X), affOf(info, t.Y)
			if !a.ok || !b.ok {
				return affine{}
			}
			s := 1
			if t.Op == token.SUB {
				s = -1
			}
			r := affine{co: map[types.Object]int{}, c: a.c + s*b.c, ok: true}
			for k, v := range a.co {
				r.co[k] += v
			}
			for k, v := range b.co {
				r.co[k] += s * v
			}
			return r
		}
	}
	return affine{}
}

func constInt(tv types.TypeAndValue) (int, bool) {
	if tv.Value == nil {
		return 0, false
	}
	s := tv.Value.ExactString()
	n := 0
	neg := false
	for i, ch := range s {
		if i == 0 && ch == '-' {
			neg = true
			continue
		}
		if ch < '0' || ch > '9' {
			return 0, false
		}
		n = n*10 + int(ch-'0')
	}
	if neg {
		n = -n
	}
	return n, true
}

func (a affine) String() string {
	s := ""
	for k, v := range a.co {
		if v != 0 {
			s += fmt.Sprintf("%+d·%s ", v, k.Name())
		}
	}
	return s + fmt.Sprintf("%+d", a.c)
}

// sliceRelativeRule is generic over the in-scope packages.
func sliceRelativeRule(p *Prog, r *Report, rule string, fnKeys []string, min int) {
	r.Rule(rule, "slice-relative positions: the result of bytes/strings.Index*(B[lo:…], …) counts from lo; every element access B[e] whose index mentions that result must add lo (and lo must not be reassigned in between)", min)
	for _, key := range fnKeys {
		fi := p.Funcs[key]
		if fi == nil {
			r.Ob("fn:"+key, "-", false, "function "+key+" not found")
			continue
		}
		info := fi.Pkg.TypesInfo
		type search struct {
			v    types.Object
			base types.Object
			lo   affine
			pos  token.Pos
			loE  ast.Expr
		}
		var ss []search
		ast.Inspect(fi.Decl.Body, func(n ast.Node) bool {
			as, ok := n.(*ast.AssignStmt)
			if !ok || len(as.Lhs) != 1 || len(as.Rhs) != 1 {
				return true
			}
			call, ok := as.Rhs[0].(*ast.CallExpr)
			if !ok || len(call.Args) < 1 {
				return true
			}
			f := callee(info, call)
			if f == nil || f.Pkg() == nil || (f.Pkg().Path() != "bytes" && f.Pkg().Path() != "strings") {
				return true
			}
			if len(f.Name()) < 5 || (f.Name()[:5] != "Index" && (len(f.Name()) < 9 || f.Name()[:9] != "LastIndex")) {
				return true
			}
			se, ok := call.Args[0].(*ast.SliceExpr)
			if !ok || se.Low == nil {
				return true
			}
			bid, ok := se.X.(*ast.Ident)
			lid, ok2 := as.Lhs[0].(*ast.Ident)
			if !ok || !ok2 {
				return true
			}
			v := info.Uses[lid]
			if v == nil {
				v = info.Defs[lid]
			}
			ss = append(ss, search{v: v, base: info.Uses[bid], lo: affOf(info, se.Low), pos: as.Pos(), loE: se.Low})
			return true
		})
		for _, s := range ss {
			n := 0
			ast.Inspect(fi.Decl.Body, func(m ast.Node) bool {
				ie, ok := m.(*ast.IndexExpr)
				if !ok {
					return true
				}
				bid, ok := ie.X.(*ast.Ident)
				if !ok || info.Uses[bid] != s.base {
					return true
				}
				mentions := false
				ast.Inspect(ie.Index, func(k ast.Node) bool {
					if id, ok := k.(*ast.Ident); ok && info.Uses[id] == s.v {
						mentions = true
					}
					return true
				})
				if !mentions {
					return true
				}
				n++
				a := affOf(info, ie.Index)
				okk := a.ok && s.lo.ok
				detail := ""
				if okk {
					// a − v − lo must be constant
					d := affine{co: map[types.Object]int{}, c: a.c - s.lo.c, ok: true}
					for k, v := range a.co {
						d.co[k] += v
					}
					d.co[s.v] -= 1
					for k, v := range s.lo.co {
						d.co[k] -= v
					}
					for _, v := range d.co {
						if v != 0 {
							okk = false
						}
					}
					detail = fmt.Sprintf("%s[%s] with %s found in %s[%s:…]: index − position − lower bound = %s (must be a constant)", bid.Name, types.ExprString(ie.Index), s.v.Name(), bid.Name, types.ExprString(s.loE), d)
					// lo not reassigned between the search and the use
					if okk {
						ast.Inspect(fi.Decl.Body, func(k ast.Node) bool {
							if as, ok := k.(*ast.AssignStmt); ok && as.Pos() > s.pos && as.Pos() < ie.Pos() {
								for _, l := range as.Lhs {
									if id, ok := l.(*ast.Ident); ok {
										o := info.Uses[id]
										if o != nil && s.lo.co[o] != 0 {
											okk = false
											detail += "; the lower bound " + id.Name + " is reassigned between the search and this access"
										}
									}
								}
							}
							return true
						})
					}
				} else {
					detail = fmt.Sprintf("%s[%s]: index or lower bound %s is not an affine form over locals: cannot be judged", bid.Name, types.ExprString(ie.Index), types.ExprString(s.loE))
				}
				if !okk {
					detail += " — the byte inspected is not the one at the found position: after the first line of a chunk the carriage-return test looks at the wrong byte, so blank CRLF lines are counted and the printed ranges run past the last batch line"
				}
				r.Ob("rel:"+shortKey(key)+":"+bid.Name+"["+s.v.Name()+"]", p.Pos(ie.Pos()), okk, detail)
				return true
			})
			_ = n
		}
	}
}

func shortKey(k string) string {
	for i := len(k) - 1; i >= 0; i-- {
		if k[i] == '.' {
			return k[i+1:]
		}
	}
	return k
}

func c17LineCounter(p *Prog, r *Report) {
	sliceRelativeRule(p, r, "C17.R6", []string{"calcHermesBatch.lineCounter"}, 1)

	r.Rule("C17.R7", "counting decision of the line counter, per path of the scan-loop body: with I the search result and K ≥ 0 the bytes carried from the previous chunk, a path that raises the counter must allow K+I ≥ 1, a path on which a line break was found (I ≠ −1) and the counter is unchanged must exclude K+I ≥ 2; the carried count is reset when a break is found and positive when none is; at end of input the counter is raised exactly when bytes are carried; the exact decision per path (one byte without CR counts, a lone CR does not), the search start advances to just after the break, the scan continues while a break was found and bytes remain, the CR flag comes from the byte before the break / the last byte of the chunk; nothing is carried into the first chunk and every chunk is searched from its first byte", 23)
	key := "calcHermesBatch.lineCounter"
	fi := p.Funcs[key]
	x := walked(p, key)
	if fi == nil || x == nil {
		r.Ob("lineCounter", "-", false, key+" not found")
		return
	}
	info := fi.Pkg.TypesInfo
	// the search: local assigned from bytes.Index inside a loop
	var search *Event
	for _, e := range x.Events {
		if e.Kind == "assign" && e.Local != nil && len(e.Loops) >= 1 {
			if t := e.Val.single(); t != nil && len(t.M) == 1 && (t.M[0].A.Kind == "opq" || t.M[0].A.Kind == "call") && t.M[0].A.Fn == "bytes.Index" {
				search = e
			}
		}
	}
	if search == nil {
		r.Ob("search", p.Pos(fi.Decl.Pos()), false, "no 'v = bytes.Index(buf[lo:hi], sep)' inside a loop: the counter has a shape this rule does not know — undecided")
		return
	}
	L := search.Loops[len(search.Loops)-1]
	// the counter: the integer local returned as first result
	var counter types.Object
	ast.Inspect(fi.Decl.Body, func(n ast.Node) bool {
		if rs, ok := n.(*ast.ReturnStmt); ok && len(rs.Results) == 2 {
			if id, ok := rs.Results[0].(*ast.Ident); ok {
				counter = info.Uses[id]
			}
		}
		return true
	})
	if counter == nil {
		r.Ob("counter", p.Pos(fi.Decl.Pos()), false, "the returned line count is not a local variable")
		return
	}
	// the search start: lower bound of the sliced buffer handed to the search; its upper bound
	var startObj, hiObj, bufObj types.Object
	ast.Inspect(L.Stmt, func(n ast.Node) bool {
		c, ok := n.(*ast.CallExpr)
		if !ok {
			return true
		}
		if f := callee(info, c); f != nil && f.FullName() == "bytes.Index" && len(c.Args) == 2 {
			if se, ok := c.Args[0].(*ast.SliceExpr); ok {
				startObj, hiObj, bufObj = useObj(info, se.Low), useObj(info, se.High), useObj(info, se.X)
			}
		}
		return true
	})
	_, ends := forkBody(p, fi, L.Stmt)
	// identify I (search result atom) and K (carry: the int local, declared outside the loop, that is added to I)
	var carry types.Object
	var Iatom *Atom
	for _, st := range ends {
		for obj, v := range st.vars {
			if obj == search.Local {
				if t := v.single(); t != nil && len(t.M) == 1 {
					Iatom = t.M[0].A
				}
			}
		}
	}
	if Iatom == nil {
		r.Ob("search", p.Pos(search.Pos), false, "search result is not forwarded as an atom")
		return
	}
	I := PAtom(Iatom)
	// carry: a local declared outside the loop whose entry atom appears with I in some guard of a counter increment
	cand := map[types.Object]int{}
	for _, st := range ends {
		for _, g := range st.guards {
			condAtoms(g, func(a *Atom) {
				if a.Kind == "var" {
					for obj := range st.vars {
						if obj.Name() == a.Root && isIntegerType(obj.Type()) && !(obj.Pos() > L.Stmt.Pos() && obj.Pos() < L.Stmt.End()) && obj != counter {
							cand[obj]++
						}
					}
				}
			})
		}
	}
	best := 0
	for obj, n := range cand {
		if n > best {
			carry, best = obj, n
		}
	}
	if carry == nil {
		r.Ob("carry", p.Pos(L.Stmt.Pos()), false, "no carried byte count (integer local declared outside the scan loop and tested on the way to the increment) found — undecided")
		return
	}
	K := pVar(carry.Name())
	dom := []*Cond{cmpCond(K, token.GEQ), cmpCond(I.Add(PInt(1)), token.GEQ)}
	cnt0 := pVar(counter.Name())
	nFound, nNone := 0, 0
	for pi, st := range ends {
		if st.term == 1 {
			continue
		}
		cv, has := st.vars[counter]
		d := PZero()
		if has {
			d = cv.Sub(cnt0)
		}
		g := append(append([]*Cond{}, st.guards...), dom...)
		found := !satisfiable(g, cmpCond(I.Add(PInt(1)), token.EQL))
		none := !satisfiable(g, cmpCond(I.Add(PInt(1)), token.NEQ))
		label := fmt.Sprintf("path%d", pi)
		kv, hask := st.vars[carry]
		switch {
		case !satisfiable(g):
			continue // infeasible path
		case d.Equal(PInt(1)):
			ok := found && !satisfiable(g, cmpCond(K.Add(I), token.LEQ)) == true
			if B := crFlagOf(st.guards); B != nil {
				// exact decision: counted only if (K+I ≥ 1 ∧ no CR before the break) ∨ (K+I ≥ 2 ∧ CR before the break)
				notSpec := &Cond{Kind: "and", Sub: []*Cond{
					{Kind: "or", Sub: []*Cond{cmpCond(K.Add(I).Sub(PInt(1)), token.LSS), {Kind: "not", Sub: []*Cond{B}}}},
					{Kind: "or", Sub: []*Cond{cmpCond(K.Add(I).Sub(PInt(2)), token.LSS), B}},
				}}
				exact := !satisfiable(g, notSpec)
				r.Ob("count-exact:"+label, p.Pos(L.Stmt.Pos()), exact, fmt.Sprintf("counted path implies (K+I ≥ 1 and the byte before the break is no CR) or (K+I ≥ 2 and it is a CR): %v — a line holding only a carriage return must not be counted, a one-byte line must", exact))
			}
			// a counted path must exclude the empty line K+I ≤ 0
			r.Ob("count:"+label, p.Pos(L.Stmt.Pos()), ok, fmt.Sprintf("[%s] counter +1: only after a line break was found (%v) and never for an empty line K+I ≤ 0 (excluded: %v)", guardKeys(st.guards), found, !satisfiable(g, cmpCond(K.Add(I), token.LEQ))))
			nFound++
		case d.IsZero() && found:
			ok := !satisfiable(g, cmpCond(K.Add(I).Sub(PInt(2)), token.GEQ))
			if B := crFlagOf(st.guards); B != nil {
				spec := &Cond{Kind: "or", Sub: []*Cond{
					{Kind: "and", Sub: []*Cond{cmpCond(K.Add(I).Sub(PInt(1)), token.GEQ), B}},
					{Kind: "and", Sub: []*Cond{cmpCond(K.Add(I).Sub(PInt(2)), token.GEQ), {Kind: "not", Sub: []*Cond{B}}}},
				}}
				exact := !satisfiable(g, spec)
				r.Ob("skip-exact:"+label, p.Pos(L.Stmt.Pos()), exact, fmt.Sprintf("uncounted path with a found break excludes (K+I ≥ 1 without CR) and (K+I ≥ 2 with CR): %v — otherwise a one-character batch line is not counted", exact))
			}
			r.Ob("skip:"+label, p.Pos(L.Stmt.Pos()), ok, fmt.Sprintf("[%s] line break found, counter unchanged: a line with two or more bytes (K+I ≥ 2) must be impossible on this path: %v — otherwise a batch line whose break falls on a particular position of a read chunk is not counted and the last batch lines get no range", guardKeys(st.guards), ok))
			nFound++
		case d.IsZero() && none:
			nNone++
			ok := hask && !kv.IsZero()
			r.Ob("carry:"+label, p.Pos(L.Stmt.Pos()), ok, fmt.Sprintf("[%s] no line break in the rest of the chunk: the carried byte count becomes %s (must record the unread tail)", guardKeys(st.guards), polyOr(kv)))
		case d.IsZero():
			// path not decided on I: must satisfy the skip obligation as well
			ok := !satisfiable(append(g, cmpCond(I.Add(PInt(1)), token.NEQ)), cmpCond(K.Add(I).Sub(PInt(2)), token.GEQ))
			r.Ob("skip:"+label, p.Pos(L.Stmt.Pos()), ok, fmt.Sprintf("[%s] counter unchanged on a path that does not test the search result: K+I ≥ 2 with a found break must be impossible: %v", guardKeys(st.guards), ok))
		default:
			r.Ob("count:"+label, p.Pos(L.Stmt.Pos()), false, fmt.Sprintf("[%s] counter changes by %s in one iteration", guardKeys(st.guards), d))
		}
		// the next search starts right after the found break
		if found && satisfiable(g) && startObj != nil {
			sv, has := st.vars[startObj]
			want := pVar(startObj.Name()).Add(I).Add(PInt(1))
			r.Ob("advance:"+label, p.Pos(L.Stmt.Pos()), has && sv.Equal(want), fmt.Sprintf("after a found break the search start becomes %s (must be start + I + 1: one further and a byte is skipped, one less and the same break is found again)", polyOr(sv)))
		}
		// carry reset when a break was found
		if found && satisfiable(g) {
			ok := hask && kv.IsZero()
			r.Ob("reset:"+label, p.Pos(L.Stmt.Pos()), ok, fmt.Sprintf("[%s] after a found line break the carried byte count is %s (must be 0: the next line starts empty)", guardKeys(st.guards), polyOr(kv)))
		}
	}
	if nFound < 2 || nNone < 1 {
		r.Ob("paths", p.Pos(L.Stmt.Pos()), false, fmt.Sprintf("scan-loop body has %d found-break paths and %d no-break paths; expected at least 2 and 1", nFound, nNone))
	}
	// end of input: counter +1 guarded by carry > 0, on the path that returns without error
	okEOF := false
	for _, e := range x.Events {
		if e.Kind == "assign" && e.Local == counter && e.Val.Sub(e.Old).Equal(PInt(1)) && !e.InLoop(L) {
			hasCarry := false
			n := 0
			for _, g := range flattenGuards(e.Guards) {
				if g.Loop {
					continue
				}
				n++
				if g.Kind == "cmp" && g.Op == token.GTR {
					if t := g.P.single(); t != nil && len(t.M) == 1 && t.M[0].A.Root == carry.Name() && t.C.Cmp(ratInt(1)) == 0 {
						hasCarry = true
					}
				}
			}
			isEOF := false
			for _, g := range flattenGuards(e.Guards) {
				if g.Kind == "cmp" && g.Op == token.EQL && strings.Contains(g.Key(), "io.EOF") {
					isEOF = true
				}
			}
			okEOF = hasCarry && n == 2 && isEOF
			r.Ob("eof", p.Pos(e.Pos), okEOF, fmt.Sprintf("at end of input the counter is raised under [%s] (must be: end of input and carried bytes > 0, nothing else)", guardKeys(e.Guards)))
		}
	}
	if !okEOF {
		r.Expect("eof", false, "increment of the counter for a last line without line break")
	}
	c17ScanShape(p, r, fi, L, search.Local, startObj, hiObj, bufObj, carry)
}

// crFlagOf returns the opaque condition (the carriage-return flag) that occurs inside a disjunction of the path condition.
func crFlagOf(gs []*Cond) *Cond {
	var found *Cond
	var walk func(c *Cond, inOr bool)
	walk = func(c *Cond, inOr bool) {
		switch c.Kind {
		case "and", "or", "not":
			for _, s := range c.Sub {
				walk(s, inOr || c.Kind == "or")
			}
		case "cmp", "const":
		default:
			if inOr && found == nil {
				found = c
			}
		}
	}
	for _, g := range gs {
		walk(g, false)
	}
	return found
}

// c17ScanShape: the parts of the scan loop the path evaluation treats as opaque.
func c17ScanShape(p *Prog, r *Report, fi *FuncInfo, L *LoopCtx, idxObj, startObj, hiObj, bufObj, carry types.Object) {
	info := fi.Pkg.TypesInfo
	loop, _ := L.Stmt.(*ast.ForStmt)
	if loop == nil || startObj == nil || hiObj == nil || bufObj == nil {
		r.Ob("scan:shape", p.Pos(L.Stmt.Pos()), false, "scan loop / searched slice buf[start:n] not recognised")
		return
	}
	// (a) n is the number of bytes just read into the same buffer, and the scan runs exactly when n > 0
	okRead := false
	for _, d := range defsOf(info, fi.Decl.Body, hiObj) {
		if c, ok := stripParens(d.Rhs).(*ast.CallExpr); ok && d.Idx == 0 && len(c.Args) == 1 && useObj(info, c.Args[0]) == bufObj {
			if se, ok := c.Fun.(*ast.SelectorExpr); ok && se.Sel.Name == "Read" {
				okRead = true
			}
		}
	}
	conds, _ := astPathConds(info, fi.Decl.Body, loop)
	okGuard := len(conds) == 1 && !conds[0].Neg
	if okGuard {
		s := normExpr(info, conds[0].E, nil)
		okGuard = s == "("+hiObj.Name()+" > 0)" || s == "(0 < "+hiObj.Name()+")" || s == "("+hiObj.Name()+" >= 1)" || s == "("+hiObj.Name()+" != 0)"
	}
	r.Ob("scan:chunk", p.Pos(loop.Pos()), okRead && okGuard, fmt.Sprintf("the searched slice ends at the number of bytes just read into the buffer: %v; the scan runs under [%s] (must be exactly 'bytes were read')", okRead, joinConds(conds)))
	// (a2) initial values: nothing is carried into the first chunk, every chunk is searched from its first byte
	initOK := func(obj types.Object) (bool, string) {
		n := 0
		ok := true
		for _, d := range defsOf(info, fi.Decl.Body, obj) {
			if d.Stmt.Pos() >= loop.Pos() && d.Stmt.End() <= loop.End() {
				continue
			}
			n++
			if tv := info.Types[d.Rhs]; tv.Value == nil || tv.Value.String() != "0" {
				ok = false
			}
		}
		return ok && n >= 1, fmt.Sprintf("%d definition(s) outside the scan loop", n)
	}
	okC, dC := initOK(carry)
	okS, dS := initOK(startObj)
	r.Ob("scan:initial", p.Pos(loop.Pos()), okC && okS, fmt.Sprintf("carried byte count starts at 0 (%v, %s); the search of a chunk starts at its first byte (%v, %s)", okC, dC, okS, dS))
	// (b) continuation: found ∧ start < n
	okCont := false
	if as, ok := loop.Post.(*ast.AssignStmt); ok && len(as.Lhs) == 1 && len(as.Rhs) == 1 && useObj(info, as.Lhs[0]) == useObj(info, loop.Cond) && useObj(info, loop.Cond) != nil {
		lits := splitCond(as.Rhs[0], false, nil)
		foundT, moreT := false, false
		for _, l := range lits {
			s := normExpr(info, l.E, nil)
			if !l.Neg && (s == "("+idxObj.Name()+" != -1)" || s == "("+idxObj.Name()+" >= 0)" || s == "(-1 != "+idxObj.Name()+")") {
				foundT = true
			}
			if !l.Neg && (s == "("+startObj.Name()+" < "+hiObj.Name()+")" || s == "("+hiObj.Name()+" > "+startObj.Name()+")") {
				moreT = true
			}
		}
		okCont = foundT && moreT && len(lits) == 2
	}
	r.Ob("scan:continue", p.Pos(loop.Pos()), okCont, "the scan of a chunk goes on exactly while a break was found and bytes remain (start < bytes read): otherwise the remaining lines of the chunk are not counted")
	// (c) the carriage-return flag: in-chunk from the byte before the break (only when the break is not the first byte), at the end of a chunk from its last byte
	var flagObj types.Object
	nIn, nEnd := 0, 0
	okIn, okEnd := true, true
	ast.Inspect(loop.Body, func(n ast.Node) bool {
		as, ok := n.(*ast.AssignStmt)
		if !ok || len(as.Lhs) != 1 || len(as.Rhs) != 1 {
			return true
		}
		be, ok := stripParens(as.Rhs[0]).(*ast.BinaryExpr)
		if !ok || be.Op != token.NEQ {
			return true
		}
		ix, ok := stripParens(be.X).(*ast.IndexExpr)
		if !ok || useObj(info, ix.X) != bufObj {
			return true
		}
		if tv := info.Types[be.Y]; tv.Value == nil || tv.Value.String() != "13" {
			return true
		}
		flagObj = useObj(info, as.Lhs[0])
		a := affOf(info, ix.Index)
		cs, _ := astPathConds(info, loop.Body, as)
		if a.ok && a.co[idxObj] == 1 {
			nIn++
			// start + index − 1, under found ∧ index > 0
			if a.co[startObj] != 1 || a.c != -1 || len(a.co) != 2 {
				okIn = false
			}
			pos := false
			for _, c := range cs {
				s := normExpr(info, c.E, nil)
				if !c.Neg && (s == "("+idxObj.Name()+" > 0)" || s == "("+idxObj.Name()+" >= 1)" || s == "(0 < "+idxObj.Name()+")") {
					pos = true
				}
			}
			if !pos {
				okIn = false
			}
		} else if a.ok && a.co[hiObj] == 1 {
			nEnd++
			if a.c != -1 || len(a.co) != 1 {
				okEnd = false
			}
			// on the no-break side
			none := false
			for _, c := range cs {
				s := normExpr(info, c.E, nil)
				if (c.Neg && (s == "("+idxObj.Name()+" != -1)" || s == "("+idxObj.Name()+" >= 0)")) || (!c.Neg && (s == "("+idxObj.Name()+" == -1)" || s == "("+idxObj.Name()+" < 0)")) {
					none = true
				}
			}
			if !none {
				okEnd = false
			}
		} else {
			okIn = false
		}
		return true
	})
	r.Ob("scan:cr-in-chunk", p.Pos(loop.Pos()), nIn == 1 && okIn, fmt.Sprintf("%d store(s) of the carriage-return flag from the byte directly before a found break, only when the break is not the first byte of the search range: %v", nIn, okIn))
	r.Ob("scan:cr-chunk-end", p.Pos(loop.Pos()), nEnd == 1 && okEnd, fmt.Sprintf("%d store(s) of the carriage-return flag from the last byte read when no break is left in the chunk: %v (a CR LF pair split over two chunks)", nEnd, okEnd))
	_ = flagObj
}

// c17Output: what reaches the caller.  The ranges are collected in one string
// accumulator that is printed once after the loops: every formatted range must
// be APPENDED to that accumulator (a plain assignment keeps only the last
// range), and the accumulator printed is the one appended to.  The -size
// answer prints the line count when there are fewer lines than nodes and the
// node count otherwise.
func c17Output(p *Prog, r *Report) {
	r.Rule("C17.R8", "what is printed: every formatted range is appended to one string accumulator (declared empty) and that accumulator is printed after the loops; the -size answer prints the number of lines on the arm 'fewer lines than nodes' and the number of nodes on the other arm, through the same decision as the -list block; every range but the last of a loop is followed by a blank", 7)
	fi := p.Funcs["calcHermesBatch.main"]
	if fi == nil {
		r.Ob("main", "-", false, "calcHermesBatch.main not found")
		return
	}
	info := fi.Pkg.TypesInfo
	isSprintf := func(e ast.Expr) bool {
		call, ok := e.(*ast.CallExpr)
		if !ok {
			return false
		}
		f := callee(info, call)
		return f != nil && f.Pkg() != nil && f.Pkg().Path() == "fmt" && f.Name() == "Sprintf"
	}
	var acc types.Object
	nApp := 0
	ast.Inspect(fi.Decl.Body, func(n ast.Node) bool {
		as, ok := n.(*ast.AssignStmt)
		if !ok || len(as.Lhs) != 1 || len(as.Rhs) != 1 {
			return true
		}
		lid, ok := as.Lhs[0].(*ast.Ident)
		if !ok {
			return true
		}
		has := false
		ast.Inspect(as.Rhs[0], func(m ast.Node) bool {
			if e, ok := m.(ast.Expr); ok && isSprintf(e) {
				has = true
			}
			return true
		})
		if !has {
			return true
		}
		nApp++
		obj := info.Uses[lid]
		appended := false
		switch as.Tok {
		case token.ADD_ASSIGN:
			appended = isSprintf(as.Rhs[0])
		case token.ASSIGN:
			// acc = acc + Sprintf(...)
			if be, ok := as.Rhs[0].(*ast.BinaryExpr); ok && be.Op == token.ADD {
				if x, ok := be.X.(*ast.Ident); ok && info.Uses[x] == obj && isSprintf(be.Y) {
					appended = true
				}
			}
		}
		same := acc == nil || acc == obj
		if acc == nil {
			acc = obj
		}
		r.Ob("appended", p.Pos(as.Pos()), appended && same && obj != nil, fmt.Sprintf("formatted range %s %s %s: appended to the accumulator: %v, same accumulator as the other ranges: %v (a plain assignment keeps only the last range)", lid.Name, as.Tok, clip(types.ExprString(as.Rhs[0]), 60), appended, same))
		return true
	})
	if nApp < 4 {
		r.Ob("appended", p.Pos(fi.Decl.Pos()), false, fmt.Sprintf("%d formatted ranges are stored, 4 confirmed (two per arm)", nApp))
	}
	// the accumulator starts empty and is what is printed
	if acc != nil {
		empty := false
		ast.Inspect(fi.Decl.Body, func(n ast.Node) bool {
			if ds, ok := n.(*ast.DeclStmt); ok {
				if gd, ok := ds.Decl.(*ast.GenDecl); ok {
					for _, sp := range gd.Specs {
						if vs, ok := sp.(*ast.ValueSpec); ok {
							for i, nm := range vs.Names {
								if info.Defs[nm] == acc {
									if len(vs.Values) == 0 {
										empty = true
									} else if bl, ok := vs.Values[i].(*ast.BasicLit); ok && bl.Value == `""` {
										empty = true
									}
								}
							}
						}
					}
				}
			}
			if as, ok := n.(*ast.AssignStmt); ok && as.Tok == token.DEFINE {
				for i, l := range as.Lhs {
					if id, ok := l.(*ast.Ident); ok && info.Defs[id] == acc && i < len(as.Rhs) {
						if bl, ok := as.Rhs[i].(*ast.BasicLit); ok && bl.Value == `""` {
							empty = true
						}
					}
				}
			}
			return true
		})
		printed := false
		ast.Inspect(fi.Decl.Body, func(n ast.Node) bool {
			call, ok := n.(*ast.CallExpr)
			if !ok || len(call.Args) != 1 {
				return true
			}
			f := callee(info, call)
			if f == nil || f.Pkg() == nil || f.Pkg().Path() != "fmt" || !strings.HasPrefix(f.Name(), "Print") {
				return true
			}
			if id, ok := call.Args[0].(*ast.Ident); ok && info.Uses[id] == acc {
				printed = true
			}
			return true
		})
		r.Ob("accumulator", p.Pos(fi.Decl.Pos()), empty && printed, fmt.Sprintf("the accumulator starts empty: %v; it is the value printed: %v", empty, printed))
	}
	// -size: if lines/nodes == 0 { Print(lines) } else { Print(nodes) }
	okSize := false
	det := "the -size decision (if lines/nodes == 0 … else …) with one print per arm was not found"
	ast.Inspect(fi.Decl.Body, func(n ast.Node) bool {
		ifs, ok := n.(*ast.IfStmt)
		if !ok || ifs.Else == nil {
			return true
		}
		be, ok := ifs.Cond.(*ast.BinaryExpr)
		if !ok || be.Op != token.EQL {
			return true
		}
		q, ok := be.X.(*ast.BinaryExpr)
		if !ok || q.Op != token.QUO {
			return true
		}
		if bl, ok := be.Y.(*ast.BasicLit); !ok || bl.Value != "0" {
			return true
		}
		printsOnly := func(b ast.Stmt) (string, bool) {
			blk, ok := b.(*ast.BlockStmt)
			if !ok || len(blk.List) != 1 {
				return "", false
			}
			es, ok := blk.List[0].(*ast.ExprStmt)
			if !ok {
				return "", false
			}
			call, ok := es.X.(*ast.CallExpr)
			if !ok || len(call.Args) != 1 {
				return "", false
			}
			f := callee(info, call)
			if f == nil || f.Pkg() == nil || f.Pkg().Path() != "fmt" || !strings.HasPrefix(f.Name(), "Print") {
				return "", false
			}
			return types.ExprString(call.Args[0]), true
		}
		a, okA := printsOnly(ifs.Body)
		b, okB := printsOnly(ifs.Else)
		if !okA || !okB {
			return true
		}
		num, den := types.ExprString(q.X), types.ExprString(q.Y)
		okSize = a == num && b == den
		det = fmt.Sprintf("-size: if %s/%s == 0 prints %s, otherwise prints %s (must be the line count, then the node count)", num, den, a, b)
		return true
	})
	r.Ob("size-printed", p.Pos(fi.Decl.Pos()), okSize, det)
}
