package main

import (
	"fmt"
	"go/ast"
	"go/token"
	"strings"
)

func init() { register("C17", checkC17) }

func checkC17(p *Prog, r *Report) {
	c17List(p, r)
	c17Consumer(p, r)
	dispatcherRule(p, r, "C17.R5")
	c17LineCounter(p, r)
	c17Output(p, r)
	c17Separators(p, r)
	c17CalcArgs(p, r)
	// the dispatcher counts result messages: one message per dispatched line, or the drain loop ends early
	c11Result(p, r, "C17.R10")
}

type rangePrint struct {
	e    *Event
	a, b Poly
	L    *LoopCtx
}

func c17List(p *Prog, r *Report) {
	x := walked(p, "calcHermesBatch.main")
	if x == nil {
		r.Rule("C17.R1", "batch calculator", 1)
		r.Ob("main", "-", false, "calcHermesBatch.main not found")
		return
	}
	lines, nodes := Poly{}, Poly{}
	// operands of the -size decision: idiv(lines, nodes) == 0
	var sizeCond *Cond
	for _, e := range x.Events {
		if e.Kind == "call" && e.Name == "fmt.Print" && len(e.Loops) == 0 {
			for _, g := range flattenGuards(e.Guards) {
				if g.Kind == "cmp" && g.Op == token.EQL {
					if t := g.P.single(); t != nil && len(t.M) == 1 && t.M[0].A.Fn == "idiv" {
						sizeCond = g
						lines, nodes = t.M[0].A.Args[0], t.M[0].A.Args[1]
					}
				}
			}
		}
	}
	r.Rule("C17.R1", "the -list answer is printed on every path: each arm of the list block prints the accumulated ranges after its loop", 2)
	if sizeCond == nil {
		r.Ob("size-decision", "-", false, "the 'fewer lines than nodes' decision (lines/nodes == 0) was not found")
		return
	}
	small := func(e *Event) int { // +1: lines<nodes arm, -1: other arm, 0 neither
		for _, g := range flattenGuards(e.Guards) {
			if g.Kind == "cmp" && g.P.Equal(sizeCond.P) {
				if g.Op == token.EQL {
					return 1
				}
				if g.Op == token.NEQ {
					return -1
				}
			}
		}
		return 0
	}
	isList := func(e *Event) bool {
		return e.HasGuard(func(c *Cond) bool { return c.Kind == "opq" && strings.Contains(c.Text, "returnList") })
	}
	// range prints: Sprintf with two numeric arguments appended to the result, inside a loop of the list block
	var prints []*rangePrint
	for _, e := range x.Events {
		if e.Kind == "call" && e.Name == "fmt.Sprintf" && len(e.Args) == 3 && len(e.Loops) == 1 && isList(e) {
			prints = append(prints, &rangePrint{e: e, a: e.Args[1], b: e.Args[2], L: e.Loops[0]})
		}
	}
	arms := map[int][]*rangePrint{}
	for _, rp := range prints {
		arms[small(rp.e)] = append(arms[small(rp.e)], rp)
	}
	for _, arm := range []int{1, -1} {
		name := map[int]string{1: "lines<nodes", -1: "lines>=nodes"}[arm]
		if len(arms[arm]) == 0 {
			r.Ob("printed:"+name, "-", false, "no range is formatted in this arm of the list block")
			continue
		}
		L := arms[arm][0].L
		printed := false
		for _, e := range x.Events {
			if e.Kind == "call" && e.Name == "fmt.Print" && len(e.Loops) == 0 && isList(e) && (small(e) == arm || small(e) == 0) && e.Pos > L.Stmt.End() {
				printed = true
			}
		}
		r.Ob("printed:"+name, p.Pos(L.Stmt.Pos()), printed, fmt.Sprintf("arm '%s': the ranges built by the loop are written to the output after the loop: %v", name, printed))
	}
	r.Rule("C17.R2", "count agreement: the number of ranges each list loop produces equals the job-array size reported for the same case (lines if lines < nodes, else nodes)", 2)
	for _, arm := range []int{1, -1} {
		name := map[int]string{1: "lines<nodes", -1: "lines>=nodes"}[arm]
		if len(arms[arm]) == 0 {
			continue
		}
		L := arms[arm][0].L
		lo, hi, unit, why := loopBounds(x, L)
		want := nodes
		if arm == 1 {
			want = lines
		}
		ok := why == "" && unit
		trip := PZero()
		if ok {
			trip = hi.Sub(lo).Add(PInt(1))
			ok = trip.Equal(want)
		}
		r.Ob("count:"+name, p.Pos(L.Stmt.Pos()), ok, fmt.Sprintf("list loop runs %s..%s (%s iterations); -size reports %s %s", polyOr(lo), polyOr(hi), trip, want, why))
	}
	r.Rule("C17.R3", "ranges are contiguous, disjoint and cover 1..lines: each range starts at the previous end + 1, the cursor starts at 0, the first (lines mod nodes) ranges hold (lines div nodes)+1 lines and the others (lines div nodes), with div and mod taken of the same two operands", 4)
	// lines<nodes arm: singletons (i, i)
	for _, rp := range arms[1] {
		if rp.L.Var == nil {
			r.Ob("singleton", p.Pos(rp.e.Pos), false, "the loop that prints one range per line is not a counted loop (no induction variable recognised)")
			continue
		}
		v := PAtom(rp.L.Var)
		r.Ob("singleton", p.Pos(rp.e.Pos), rp.L.Var != nil && rp.a.Equal(v) && rp.b.Equal(v) && rp.L.Lo.Equal(PInt(1)), fmt.Sprintf("range %s-%s per iteration of %s starting at %s (must be i-i from 1)", rp.a, rp.b, polyOr(v), polyOr(rp.L.Lo)))
	}
	// general arm: cursor
	var cursor *Atom
	for _, rp := range arms[-1] {
		c := rp.a.Sub(PInt(1))
		t := c.single()
		if t == nil || len(t.M) != 1 || t.C.Cmp(ratInt(1)) != 0 {
			r.Ob("cursor", p.Pos(rp.e.Pos), false, "range start "+rp.a.String()+" is not cursor+1")
			continue
		}
		if cursor == nil {
			cursor = t.M[0].A
		}
		// the cursor's assignment in the same arm equals the printed end
		adv := false
		for _, e := range x.Events {
			if e.Kind == "assign" && e.Local != nil && e.Local.Name() == cursor.Root && guardKeys(e.Guards) == guardKeys(rp.e.Guards) {
				adv = e.Val.Equal(rp.b)
			}
		}
		k := rp.b.Sub(c) // lines in this range
		big := guardedByLoopVarLeq(rp.e, rp.L)
		wantK := PCall("idiv", lines, nodes)
		if big.T != nil {
			wantK = wantK.Add(PInt(1))
		}
		det := fmt.Sprintf("range (%s, %s): starts at cursor+1; cursor then set to the range end: %v; size %s", rp.a, rp.b, adv, k)
		okr := adv && k.Equal(wantK) && t.M[0].A == cursor
		if big.T != nil {
			okb := big.Equal(PCall("mod", lines, nodes))
			det += fmt.Sprintf("; taken for i <= %s (must be lines mod nodes = %s)", big, PCall("mod", lines, nodes))
			okr = okr && okb
		}
		name := "small-range"
		if big.T != nil {
			name = "big-range"
		}
		r.Ob(name, p.Pos(rp.e.Pos), okr, det)
	}
	if cursor != nil && len(arms[-1]) > 0 {
		L := arms[-1][0].L
		zero := false
		for obj, v := range L.Entry.vars {
			if obj.Name() == cursor.Root && v.IsZero() {
				zero = true
			}
		}
		r.Ob("cursor-start", p.Pos(L.Stmt.Pos()), zero && L.Lo.Equal(PInt(1)), fmt.Sprintf("the cursor starts at 0 (%v) and the node counter at %s", zero, polyOr(L.Lo)))
	}
	if len(arms[-1]) != 2 {
		r.Ob("ranges", "-", false, fmt.Sprintf("%d range formats in the general arm, expected the (k+1)-line and the k-line form", len(arms[-1])))
	}
}

// guardedByLoopVarLeq returns B if the event is guarded by loopvar <= B.
func guardedByLoopVarLeq(e *Event, L *LoopCtx) Poly {
	if L.Var == nil {
		return Poly{}
	}
	v := PAtom(L.Var)
	for _, g := range flattenGuards(e.Guards) {
		if g.Kind != "cmp" || g.Loop {
			continue
		}
		// v - B <= 0  or  B - v >= 0
		for _, t := range g.P.T {
			if len(t.M) == 1 && t.M[0].A == L.Var && t.M[0].E == 1 {
				if t.C.Cmp(ratInt(1)) == 0 && g.Op == token.LEQ {
					return v.Sub(g.P)
				}
				if t.C.Cmp(ratInt(-1)) == 0 && g.Op == token.GEQ {
					return g.P.Add(v)
				}
			}
		}
	}
	return Poly{}
}

func c17Consumer(p *Prog, r *Report) {
	r.Rule("C17.R4", "consumer agreement: the simulator numbers the same lines the calculator counts (non-empty batch lines, filtered where they are read) and '-lines a-b' executes exactly indices a-1 .. b-1 of them: no content-dependent skip in the dispatch loop; the start index is int(text before the dash) − 1 for every a-b and a-end argument, the end line int(text after the dash) unless it is the word end, a plain count sets the end line, the value argument is consumed, the dispatcher receives (start, end, lines) in its parameter order; nothing else in the argument loop writes them; batch lines are what the default line scanner delivers", 14)
	fi := p.Funcs["hermes2go.main"]
	x := walked(p, "hermes2go.main")
	if fi == nil || x == nil {
		r.Ob("main", "-", false, "hermes2go.main not found")
		return
	}
	info := fi.Pkg.TypesInfo
	// (i) append(configLines, line) guarded by len(line) > 0
	found := false
	ast.Inspect(fi.Decl.Body, func(n ast.Node) bool {
		ifs, ok := n.(*ast.IfStmt)
		if !ok {
			return true
		}
		be, ok := ifs.Cond.(*ast.BinaryExpr)
		if !ok || be.Op != token.GTR {
			return true
		}
		call, ok := be.X.(*ast.CallExpr)
		if !ok || types_ExprString(call.Fun) != "len" {
			return true
		}
		if tv := info.Types[be.Y]; tv.Value == nil || tv.Value.String() != "0" {
			return true
		}
		for _, s := range ifs.Body.List {
			if as, ok := s.(*ast.AssignStmt); ok && len(as.Rhs) == 1 {
				if c2, ok := as.Rhs[0].(*ast.CallExpr); ok && types_ExprString(c2.Fun) == "append" && len(c2.Args) == 2 {
					if types_ExprString(c2.Args[1]) == types_ExprString(call.Args[0]) {
						found = true
					}
				}
			}
		}
		return true
	})
	_ = info
	// any unguarded append to the batch-line slice
	unguarded := false
	for _, e := range x.Events {
		if e.Kind == "assign" && e.Local != nil && e.Local.Name() == "configLines" && len(e.Loops) > 0 {
			if !e.HasGuard(func(c *Cond) bool {
				return c.Kind == "cmp" && strings.Contains(c.P.String(), "len(") && (c.Op == token.GTR || c.Op == token.LSS)
			}) {
				unguarded = true
			}
		}
	}
	// what a "line" is: the simulator numbers the lines a bufio.Scanner with the default splitter delivers (line feed
	// removed, one trailing carriage return removed) — the calculator's counter is built to agree with exactly that
	{
		okSplit := false
		detS := "the appended batch line is not the text of a line scanner"
		ast.Inspect(fi.Decl.Body, func(n ast.Node) bool {
			call, ok := n.(*ast.CallExpr)
			if !ok || types_ExprString(call.Fun) != "append" || len(call.Args) != 2 {
				return true
			}
			if id, ok := call.Args[0].(*ast.Ident); !ok || id.Name != "configLines" {
				return true
			}
			lo := useObj(info, call.Args[1])
			if lo == nil {
				return true
			}
			for _, d := range defsOf(info, fi.Decl.Body, lo) {
				c, ok := stripParens(d.Rhs).(*ast.CallExpr)
				if !ok {
					continue
				}
				f := callee(info, c)
				if f == nil || f.FullName() != "(*bufio.Scanner).Text" {
					detS = "the appended batch line comes from " + types_ExprString(c.Fun) + ", not from a line scanner"
					continue
				}
				// the scanner: bufio.NewScanner(...) and no Split call on it
				se, _ := c.Fun.(*ast.SelectorExpr)
				so := useObj(info, se.X)
				isNew, custom := false, false
				for _, sd := range defsOf(info, fi.Decl.Body, so) {
					if sc, ok := stripParens(sd.Rhs).(*ast.CallExpr); ok {
						if sf := callee(info, sc); sf != nil && sf.FullName() == "bufio.NewScanner" {
							isNew = true
						}
					}
				}
				ast.Inspect(fi.Decl.Body, func(m ast.Node) bool {
					if mc, ok := m.(*ast.CallExpr); ok {
						if mf := callee(info, mc); mf != nil && mf.FullName() == "(*bufio.Scanner).Split" {
							if ms, ok := mc.Fun.(*ast.SelectorExpr); ok && useObj(info, ms.X) == so {
								custom = true
							}
						}
					}
					return true
				})
				okSplit = isNew && !custom
				detS = fmt.Sprintf("batch lines are the texts of a bufio.Scanner (new scanner: %v, custom splitter: %v)", isNew, custom)
			}
			return true
		})
		r.Ob("line-splitting", p.Pos(fi.Decl.Pos()), okSplit, detS+" — the calculator counts non-empty lines as that splitter delivers them (a blank CR LF line is empty for it)")
	}
	r.Ob("non-empty-lines", p.Pos(fi.Decl.Pos()), found && !unguarded, fmt.Sprintf("batch lines are appended only when non-empty (guarded append found: %v, unguarded append: %v): line numbers agree with the calculator's count of non-empty lines", found, unguarded))
	// (ii) -lines a-b → startLine = a-1, endLine = b
	for _, e := range x.Events {
		if e.Kind != "assign" || e.Local == nil {
			continue
		}
		switch e.Local.Name() {
		case "startLine":
			if c, isC := e.Val.Const(); isC && c.Sign() == 0 {
				continue
			}
			t := e.Val.Add(PInt(1)).single()
			r.Ob("start-index", p.Pos(e.Pos), t != nil && len(t.M) == 1 && t.C.Cmp(ratInt(1)) == 0, fmt.Sprintf("start index = %s (must be the first line number − 1)", e.Val))
		case "endLine":
			if c, isC := e.Val.Const(); isC {
				_ = c
				continue
			}
			t := e.Val.single()
			r.Ob("end-index", p.Pos(e.Pos), t != nil && len(t.M) == 1 && t.C.Cmp(ratInt(1)) == 0, fmt.Sprintf("end line = %s (must be the last line number itself; the dispatch loop stops at index >= end)", e.Val))
		}
	}
	c17LinesArg(p, r)
	// (iii) dispatch filters
	dx := walked(p, "hermes2go.doConcurrentBatchRun")
	if dx == nil {
		r.Ob("dispatch", "-", false, "doConcurrentBatchRun not found")
		return
	}
	for _, e := range dx.Events {
		if e.Kind != "call" || !e.Go {
			continue
		}
		L := e.Loops[0]
		i := PAtom(L.Var)
		okAll := true
		var filt []string
		for _, g := range flattenGuards(e.Guards) {
			uses := false
			condAtoms(g, func(a *Atom) {
				if a.Kind == "loop" && L.VarObj != nil && (a.Root == L.VarObj.Name() || a.Root == "line") {
					uses = true
				}
			})
			if !uses {
				continue
			}
			filt = append(filt, g.Key())
			switch {
			case g.Kind == "cmp" && g.Op == token.GEQ && g.P.Equal(i.Sub(pVar("startLine"))):
			case g.Kind == "or" && len(g.Sub) == 2:
				// numberOfLines <= 0 || i - numberOfLines < 0
				a, b := g.Sub[0], g.Sub[1]
				if !(a.Kind == "cmp" && a.P.Equal(pVar("numberOfLines")) && a.Op == token.LEQ && b.Kind == "cmp" && b.P.Equal(i.Sub(pVar("numberOfLines"))) && b.Op == token.LSS) {
					okAll = false
				}
			default:
				okAll = false
			}
		}
		r.Ob("dispatch-filters", p.Pos(e.Pos), okAll && len(filt) == 2, fmt.Sprintf("a line is launched iff index >= start and (no end or index < end): filters %v", filt))
	}
}

func types_ExprString(e ast.Expr) string {
	if id, ok := e.(*ast.Ident); ok {
		return id.Name
	}
	var sb strings.Builder
	ast.Inspect(e, func(n ast.Node) bool {
		if id, ok := n.(*ast.Ident); ok {
			sb.WriteString(id.Name + ".")
		}
		return true
	})
	return sb.String()
}
