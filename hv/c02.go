package main

import (
	"fmt"
	"go/ast"
	"go/token"
	"sort"
	"strings"
)

func init() { register("C02", checkC02) }

func checkC02(p *Prog, r *Report) {
	rateScaling(p, r, "C02.R1", dayRatesN, 6)
	c02Halves(p, r)
	c02Konv(p, r)
	c02Disp(p, r)
	c02RoundTrip(p, r)
	c02Clamp(p, r)
	c02Writers(p, r)
	c02Denit(p, r)
	c02SourceDefined(p, r)
	mineralBooks(p, r, "C02.R9")
	nmoveSweeps(p, r, "C02.R10")
	c02Inputs(p, r, "C02.R11")
	parallelArrays(p, r, "C02.R14")
	// an irrigation event lost to a header skip is N that the file supplies and the soil never receives (shared with C10.R13)
	headerLineCounts(p, r, "C02.R15")
	uptakeReset(p, r, "C02.R12")
	denitrBalance(p, r, "C02.R13")
}

func walkedOpaque(p *Prog, key string, opaque ...string) *Exec {
	ck := key + "|" + strings.Join(opaque, ",")
	if x, ok := walkCache[ck]; ok {
		return x
	}
	fi := p.Funcs[key]
	if fi == nil {
		return nil
	}
	x := NewExec(p, fi)
	x.Opaque = map[string]bool{}
	for _, o := range opaque {
		x.Opaque[o] = true
	}
	x.RunBody(fi.Decl.Body)
	walkCache[ck] = x
	return x
}

// nmoveWalk: nmove with the per-layer work arrays kept as atoms.
func nmoveWalk(p *Prog) *Exec {
	return walkedOpaque(p, "hermes.nmove", "NitroSharedVars.DB", "NitroSharedVars.D", "NitroSharedVars.V", "NitroSharedVars.DISP", "NitroSharedVars.KONV")
}

// ---------------------------------------------------------------- R1b

func c02Halves(p *Prog, r *Report) {
	r.Rule("C02.R1b", "the mineralisation source enters the layer's N twice with the identical half term (before and after transport): the two DN contributions sum to DN·wdt", 1)
	x := nmoveWalk(p)
	if x == nil {
		r.Ob("nmove", "-", false, "hermes.nmove not found")
		return
	}
	sum := PZero()
	var poss []string
	n := 0
	for _, e := range x.Events {
		if e.Kind != "assign" {
			continue
		}
		v := stripVersions(e.Val)
		if e.Root == "GlobalVarsMain.C1" {
			if !e.Val.MentionsRoot("GlobalVarsMain.DN") {
				continue
			}
			v = stripVersions(e.Val.Sub(e.Old))
		} else if e.Local != nil || strings.Contains(e.Root, ".") {
			continue
		} else {
			// concentration array: bring back to mass by its own denominator
			continue
		}
		for _, t := range v.sortedTerms() {
			if root, _ := termRateRoot(t, map[string]bool{"GlobalVarsMain.DN": true}); root != "" {
				q := PZero()
				q.T[t.monoKey()] = t
				sum = sum.Add(renameLoopVars(q))
				poss = append(poss, p.Pos(e.Pos))
				n++
			}
		}
	}
	// first half: inside the concentration definition
	for _, e := range x.Events {
		if e.Kind == "assign" && !strings.Contains(e.Root, ".") && len(e.Idx) == 1 && e.Val.MentionsRoot("GlobalVarsMain.DN") && e.Val.MentionsRoot("GlobalVarsMain.C1") {
			// mass = conc · (coefficient): isolate numerator by multiplying with the inverse of the C1 coefficient
			v := stripVersions(e.Val)
			var c1coef Poly
			for _, t := range v.sortedTerms() {
				for _, f := range t.M {
					if f.A.Kind == "cell" && f.A.Root == "GlobalVarsMain.C1" && f.E == 1 {
						q := PZero()
						q.T[t.monoKey()] = t
						c1coef = q.Div(PAtom(f.A))
					}
				}
			}
			if c1coef.T != nil {
				mass := v.Div(c1coef)
				for _, t := range mass.sortedTerms() {
					if root, _ := termRateRoot(t, map[string]bool{"GlobalVarsMain.DN": true}); root != "" {
						q := PZero()
						q.T[t.monoKey()] = t
						sum = sum.Add(renameLoopVars(q))
						poss = append(poss, p.Pos(e.Pos))
						n++
					}
				}
			}
		}
	}
	want := cellP("GlobalVarsMain.DN", pVar("ζ")).Mul(pVar("wdt"))
	r.Ob("source-halves", strings.Join(poss, ","), n == 2 && sum.Equal(want), fmt.Sprintf("%d additive uses of the source; their sum per layer = %s (must be DN[z]·wdt)", n, sum))
}

// renameLoopVars maps every loop-variable atom to the common name ζ so that
// expressions from different loops over the layers can be compared.
func renameLoopVars(q Poly) Poly {
	return q.Subst(func(a *Atom) (Poly, bool) {
		if a.Kind == "loop" && a.IntTyped {
			return pVar("ζ"), true
		}
		return Poly{}, false
	})
}

// ---------------------------------------------------------------- R2 convection

type konvLeaf struct {
	e         *Event
	z         Poly // 1-based layer number
	sOut, sIn int  // sign of Q1[z], Q1[z-1]: +1 (>=0), -1 (<0), 0 unknown
	aOut, aIn *int // concentration offsets relative to z
	drain     *int
	top       bool // guarded by z <= 1
	atDrain   bool // guarded by z == DRAIDEP
	problems  []string
	outTerm   Poly
	drainTerm Poly
}

func signGuard(e *Event, cell Poly) int {
	s := 0
	for _, g := range flattenGuards(e.Guards) {
		if g.Kind != "cmp" {
			continue
		}
		gp := stripVersions(g.P)
		if gp.Equal(cell) {
			switch g.Op {
			case token.GEQ, token.GTR:
				s = +1
			case token.LSS, token.LEQ:
				s = -1
			}
		}
	}
	return s
}

func c02Konv(p *Prog, r *Report) {
	r.Rule("C02.R2", "flux-form convection: every leaf of the convective term is (out-flux − in-flux [+ drain])/dz with fluxes c[z+a]·Q; per flow direction the concentration offset is the same in all leaves, and the in-flux of layer z+1 uses the same concentration as the out-flux of layer z (interface agreement); the drain and leaching counters take the same monomials times the mass factor", 12)
	x := nmoveWalk(p)
	if x == nil {
		r.Ob("nmove", "-", false, "hermes.nmove not found")
		return
	}
	dz := cellP("GlobalVarsMain.DZ.Index")
	var leaves []*konvLeaf
	conc := ""
	for _, e := range x.Events {
		if e.Kind != "assign" || e.Root != "NitroSharedVars.KONV" || len(e.Idx) != 1 {
			continue
		}
		lf := &konvLeaf{e: e, z: e.Idx[0].Add(PInt(1))}
		E := stripVersions(e.Val).Mul(dz)
		lf.sOut = signGuard(e, cellP("GlobalVarsMain.Q1", lf.z))
		lf.sIn = signGuard(e, cellP("GlobalVarsMain.Q1", lf.z.Sub(PInt(1))))
		lf.top = guardedBy(e, lf.z.Sub(PInt(1)), token.LEQ) || guardedBy(e, lf.z.Sub(PInt(1)), token.EQL)
		lf.atDrain = guardedBy(e, lf.z.Sub(cellP("GlobalVarsMain.DRAIDEP")), token.EQL)
		for _, t := range E.sortedTerms() {
			var c, q *Atom
			ok := len(t.M) == 2
			for _, f := range t.M {
				if f.E != 1 || f.A.Kind != "cell" {
					ok = false
					continue
				}
				switch {
				case f.A.Root == "GlobalVarsMain.Q1" || f.A.Root == "GlobalVarsMain.QDRAIN":
					q = f.A
				default:
					c = f.A
				}
			}
			if !ok || c == nil || q == nil || len(c.Idx) != 1 {
				lf.problems = append(lf.problems, "term "+termStr(t)+" is not concentration·flux")
				continue
			}
			if conc == "" {
				conc = c.Root
			}
			off, isC := c.Idx[0].Sub(lf.z).ConstInt()
			if !isC || c.Root != conc {
				lf.problems = append(lf.problems, "concentration index "+c.Idx[0].String()+" is not z+const")
				continue
			}
			o := int(off)
			one := t.C.Cmp(ratInt(1)) == 0
			mone := t.C.Cmp(ratInt(-1)) == 0
			tp := PZero()
			tp.T[t.monoKey()] = t
			switch {
			case q.Root == "GlobalVarsMain.QDRAIN" && one:
				lf.drain = &o
				lf.drainTerm = tp
			case q.Root == "GlobalVarsMain.Q1" && q.Idx[0].Equal(lf.z) && one:
				lf.aOut = &o
				lf.outTerm = tp
			case q.Root == "GlobalVarsMain.Q1" && q.Idx[0].Equal(lf.z.Sub(PInt(1))) && mone:
				lf.aIn = &o
			default:
				lf.problems = append(lf.problems, "term "+termStr(t)+" has an unexpected flux index or sign")
			}
		}
		leaves = append(leaves, lf)
	}
	if len(leaves) == 0 {
		r.Ob("leaves", "-", false, "no assignment to the convective term KONV found in nmove")
		return
	}
	// per-leaf obligations and tables
	aOut := map[int]map[int]bool{+1: {}, -1: {}}
	aIn := map[int]map[int]bool{+1: {}, -1: {}}
	for i, lf := range leaves {
		pos := p.Pos(lf.e.Pos)
		key := fmt.Sprintf("leaf%d[out%+d,in%+d]", i, lf.sOut, lf.sIn)
		ok := len(lf.problems) == 0 && lf.sOut != 0 && lf.sIn != 0 && lf.aOut != nil
		det := fmt.Sprintf("sign(Q[z])=%+d sign(Q[z-1])=%+d", lf.sOut, lf.sIn)
		if lf.aOut != nil {
			det += fmt.Sprintf(" out: c[z%+d]", *lf.aOut)
			aOut[lf.sOut][*lf.aOut] = true
		}
		if lf.aIn != nil {
			det += fmt.Sprintf(" in: c[z%+d]", *lf.aIn)
			aIn[lf.sIn][*lf.aIn] = true
		} else if !lf.top {
			ok = false
			det += " in-flux term missing although the layer is not the top layer"
		}
		if lf.aIn != nil && lf.top {
			ok = false
			det += " in-flux term present in the top-layer leaf"
		}
		// the drain counter books QDRAIN·c[DRAIDEP] whatever the direction of the interface fluxes (capillary rise
		// can turn the flux below the drain layer upwards while the drain still runs), so the drain water must
		// leave the drain layer in every leaf the drain layer can reach; the only leaf that cannot see a running
		// drain is the top layer under a negative surface flux (the water kernel then runs its evaporation arm,
		// which never sets the drain flux: C01.R4 fresh:QDRAIN)
		notDrain := guardedBy(lf.e, lf.z.Sub(cellP("GlobalVarsMain.DRAIDEP")), token.NEQ)
		switch {
		case lf.atDrain && lf.drain == nil:
			ok = false
			det += " the leaf is taken for the drain layer but does not remove the drain water's N"
		case notDrain && lf.drain != nil:
			ok = false
			det += " drain term in a leaf that excludes the drain layer"
		case !lf.atDrain && !notDrain && lf.drain != nil:
			ok = false
			det += " drain term in a leaf that is not restricted to the drain layer"
		case !lf.atDrain && !notDrain && !(lf.top && lf.sIn < 0):
			ok = false
			det += " the drain layer can reach this leaf (no test of z against the drain depth) but the drain water's N is not removed here, while the drain counter books it: with capillary rise below a running drain the N is reported as lost and stays in the soil"
		case !lf.atDrain && !notDrain:
			det += " (top layer under a negative surface flux: the drain cannot run)"
		}
		if lf.drain != nil && *lf.drain != 0 {
			ok = false
			det += " drain water leaves with a concentration other than the drain layer's own"
		}
		if len(lf.problems) > 0 {
			det += " " + strings.Join(lf.problems, "; ")
		}
		r.Ob(key, pos, ok, det)
	}
	// direction-wise uniqueness and interface agreement
	for _, s := range []int{+1, -1} {
		o, in := setList(aOut[s]), setList(aIn[s])
		ok := len(o) == 1 && len(in) == 1 && in[0] == o[0]-1
		r.Ob(fmt.Sprintf("interface-agreement[%+d]", s), p.Pos(leaves[0].e.Pos), ok,
			fmt.Sprintf("flow sign %+d: out-flux offsets %v, in-flux offsets %v over all leaves; shifting z→z+1 the in-flux of the layer below must use the out-flux concentration (in = out−1)", s, o, in))
	}
	// upstream weighting
	oDown, oUp := setList(aOut[+1]), setList(aOut[-1])
	r.Ob("upstream", p.Pos(leaves[0].e.Pos), len(oDown) == 1 && len(oUp) == 1 && oDown[0] == 0 && oUp[0] == 1, fmt.Sprintf("downward flow exports the layer's own concentration (offset %v, want 0), upward flow imports the concentration of the layer below (offset %v, want +1)", oDown, oUp))
	// mass factor: −∂C1/∂KONV in the transport update
	var mass Poly
	for _, e := range x.Events {
		if e.Kind == "assign" && e.Root == "GlobalVarsMain.C1" && e.Val.MentionsRoot("NitroSharedVars.KONV") {
			v := stripVersions(e.Val)
			for _, t := range v.sortedTerms() {
				for _, f := range t.M {
					if f.A.Kind == "cell" && f.A.Root == "NitroSharedVars.KONV" && f.E == 1 {
						q := PZero()
						q.T[t.monoKey()] = t
						mass = q.Div(PAtom(f.A)).Neg().Div(dz) // per unit of KONV·dz
					}
				}
			}
		}
	}
	if mass.T == nil {
		r.Ob("mass-factor", "-", false, "the transport update of C1 does not contain the convective term")
		return
	}
	// drain loss counter
	subst := func(q Poly, z Poly, by Poly) Poly {
		return q.Subst(func(a *Atom) (Poly, bool) {
			if zt := z.single(); zt != nil {
				for _, f := range zt.M {
					if f.A == a {
						// z = a + c  ⇒ a := by − c
						return by.Sub(z.Sub(PAtom(a))), true
					}
				}
			}
			return Poly{}, false
		})
	}
	var drainLeaf, downLeaf, upLeaf *konvLeaf
	for _, lf := range leaves {
		if lf.drain != nil && drainLeaf == nil {
			drainLeaf = lf
		}
		if lf.sOut > 0 && lf.aOut != nil && downLeaf == nil {
			downLeaf = lf
		}
		if lf.sOut < 0 && lf.aOut != nil && upLeaf == nil {
			upLeaf = lf
		}
	}
	nd := 0
	for _, e := range x.Events {
		if e.Kind == "assign" && e.Root == "GlobalVarsMain.DRAINLOSS" {
			nd++
			d := stripVersions(e.Val.Sub(e.Old))
			ok := false
			want := PZero()
			if drainLeaf != nil {
				want = subst(drainLeaf.drainTerm, drainLeaf.z, cellP("GlobalVarsMain.DRAIDEP")).Mul(mass)
				ok = d.Equal(want)
			}
			r.Ob("drain-counter", p.Pos(e.Pos), ok, fmt.Sprintf("ΔDRAINLOSS = %s ; the drain monomial of the convective term at z=DRAIDEP times the mass factor = %s", d, want))
			// the leaf of the drain layer removes the drain water's N whenever the drain flux is non-zero, wherever the
			// drain lies (the last layer included): the counter must be booked on every call, outside every loop
			ng := 0
			for _, g := range flattenGuards(e.Guards) {
				if !g.Loop {
					ng++
				}
			}
			r.Ob("drain-counter:unconditional", p.Pos(e.Pos), ng == 0 && len(e.Loops) == 0, fmt.Sprintf("the drain counter is booked on every call (conditions: %s) — the convective term removes the drain water's N from the drain layer without such a condition", orStr(clip(guardKeys(e.Guards), 120), "none")))
		}
	}
	if nd == 0 {
		r.Ob("drain-counter", "-", false, "no accumulation of DRAINLOSS in nmove")
	}
	// leaching counter at OUTN: convective part
	outn := cellP("GlobalVarsMain.OUTN")
	no := 0
	for _, e := range x.Events {
		if e.Kind != "assign" || (e.Root != "GlobalVarsMain.OUTSUM" && e.Root != "GlobalVarsMain.NLEAG") {
			continue
		}
		no++
		d := stripVersions(e.Val.Sub(e.Old))
		s := signGuard(e, cellP("GlobalVarsMain.Q1", outn))
		var lf *konvLeaf
		if s > 0 {
			lf = downLeaf
		} else if s < 0 || guardedBy(e, cellP("GlobalVarsMain.Q1", outn), token.LEQ) {
			lf = upLeaf
			s = -1
		}
		conv := PZero()
		rest := PZero()
		for _, t := range d.sortedTerms() {
			q := PZero()
			q.T[t.monoKey()] = t
			if q.MentionsRoot("GlobalVarsMain.Q1") {
				conv = conv.Add(q)
			} else {
				rest = rest.Add(q)
			}
		}
		ok := lf != nil
		want := PZero()
		if lf != nil {
			want = subst(lf.outTerm, lf.z, outn).Mul(mass)
			ok = conv.Equal(want)
		}
		// dispersive part present exactly when OUTN < N
		inside := guardedBy(e, cellP("GlobalVarsMain.N").Sub(outn), token.GTR)
		if inside == rest.IsZero() {
			ok = false
		}
		r.Ob(fmt.Sprintf("leach-counter:%s[%+d,inside=%v]", shortRoot(e.Root), s, inside), p.Pos(e.Pos), ok, fmt.Sprintf("convective part %s must equal the out-flux monomial at z=OUTN times the mass factor = %s; dispersive part %s", conv, want, rest))
	}
	if no < 4 {
		r.Ob("leach-counter", "-", false, fmt.Sprintf("%d accumulations of the leaching counters found, expected at least 4", no))
	}
	// the concentration array is written only at indices ≥ 1 (c[0] stays zero: no solute enters with rain; c[N+1] stays zero)
	for _, e := range x.Events {
		if e.Kind == "assign" && e.Root == conc && len(e.Idx) == 1 {
			off := e.Idx[0]
			okIdx := false
			if len(e.Loops) > 0 && e.Loops[len(e.Loops)-1].Var != nil {
				L := e.Loops[len(e.Loops)-1]
				lo, hi, unit, why := loopBounds(x, L)
				if why == "" && unit {
					first := off.Subst(func(a *Atom) (Poly, bool) {
						if a == L.Var {
							return lo, true
						}
						return Poly{}, false
					})
					last := off.Subst(func(a *Atom) (Poly, bool) {
						if a == L.Var {
							return hi, true
						}
						return Poly{}, false
					})
					okIdx = first.Equal(PInt(1)) && last.Equal(cellP("GlobalVarsMain.N"))
				}
			}
			r.Ob("conc-array-range", p.Pos(e.Pos), okIdx, fmt.Sprintf("concentration array %s is stored at index %s for layers 1..N only (cells 0 and N+1 stay zero: no solute through the surface, none from below)", conc, off))
			break
		}
	}
}

func setList(m map[int]bool) []int {
	var out []int
	for k := range m {
		out = append(out, k)
	}
	sort.Ints(out)
	return out
}

// ---------------------------------------------------------------- R3 dispersion

func c02Disp(p *Prog, r *Report) {
	r.Rule("C02.R3", "dispersion is a difference of interface fluxes: the interior leaf is A(z)+B(z) with B(z) ≡ −A(z+1) (telescoping), the top leaf has only B, the bottom leaf only A", 3)
	x := nmoveWalk(p)
	if x == nil {
		return
	}
	type leaf struct {
		e    *Event
		A, B Poly
		z0   Poly
	}
	var leaves []*leaf
	var L *LoopCtx
	for _, e := range x.Events {
		if e.Kind != "assign" || e.Root != "NitroSharedVars.DISP" || len(e.Idx) != 1 || len(e.Loops) == 0 {
			continue
		}
		L = e.Loops[len(e.Loops)-1]
		lf := &leaf{e: e, z0: e.Idx[0], A: PZero(), B: PZero()}
		for _, t := range stripVersions(e.Val).sortedTerms() {
			q := PZero()
			q.T[t.monoKey()] = t
			cls := 0
			for _, f := range t.M {
				if f.A.Kind == "cell" && f.A.Root == "NitroSharedVars.DB" {
					d, isC := f.A.Idx[0].Sub(lf.z0).ConstInt()
					if isC && d == -1 {
						cls = 1
					} else if isC && d == 0 {
						cls = 2
					} else {
						cls = 3
					}
				}
			}
			switch cls {
			case 1:
				lf.A = lf.A.Add(q)
			case 2:
				lf.B = lf.B.Add(q)
			default:
				lf.A = lf.A.Add(pVar("‹unclassified›")) // forces a mismatch
			}
		}
		leaves = append(leaves, lf)
	}
	if len(leaves) != 3 || L == nil || L.Var == nil {
		r.Ob("leaves", "-", false, fmt.Sprintf("found %d dispersion leaves, expected top/interior/bottom", len(leaves)))
		return
	}
	shift := func(q Poly) Poly {
		return q.Subst(func(a *Atom) (Poly, bool) {
			if a == L.Var {
				return PAtom(L.Var).Add(PInt(1)), true
			}
			return Poly{}, false
		})
	}
	var mid *leaf
	for _, lf := range leaves {
		if !lf.A.IsZero() && !lf.B.IsZero() {
			mid = lf
		}
	}
	if mid == nil {
		r.Ob("interior", "-", false, "no interior leaf with an upper and a lower interface flux")
		return
	}
	tel := mid.B.Add(shift(mid.A)).IsZero()
	r.Ob("interior:telescoping", p.Pos(mid.e.Pos), tel, fmt.Sprintf("upper-interface part A(z) = %s ; lower-interface part B(z) = %s ; B(z) + A(z+1) must vanish", mid.A, mid.B))
	for _, lf := range leaves {
		if lf == mid {
			continue
		}
		switch {
		case lf.A.IsZero():
			// top: only the lower interface, same form as the interior's
			first := guardedBy(lf.e, lf.z0, token.EQL) || guardedBy(lf.e, lf.z0, token.LEQ)
			r.Ob("top", p.Pos(lf.e.Pos), lf.B.Equal(mid.B) && first, fmt.Sprintf("top leaf = %s (must equal the interior's lower-interface part, guarded by first layer: %v)", lf.B, first))
		case lf.B.IsZero():
			last := guardedBy(lf.e, cellP("GlobalVarsMain.N").Sub(lf.z0).Sub(PInt(1)), token.LEQ) || guardedBy(lf.e, cellP("GlobalVarsMain.N").Sub(lf.z0).Sub(PInt(1)), token.EQL)
			r.Ob("bottom", p.Pos(lf.e.Pos), lf.A.Equal(mid.A) && last, fmt.Sprintf("bottom leaf = %s (must equal the interior's upper-interface part: zero dispersive flux through the profile bottom; guarded by last layer: %v)", lf.A, last))
		}
	}
}

// ---------------------------------------------------------------- R4 round trip

func c02RoundTrip(p *Prog, r *Report) {
	r.Rule("C02.R4", "concentration↔mass round trip: the storage term of the transport update times the concentration definition gives back exactly the layer's mass plus half the source", 1)
	x := nmoveWalk(p)
	if x == nil {
		return
	}
	var def *Event
	for _, e := range x.Events {
		if e.Kind == "assign" && !strings.Contains(e.Root, ".") && len(e.Idx) == 1 && e.Val.MentionsRoot("GlobalVarsMain.C1") && len(e.Loops) > 0 {
			def = e
			break
		}
	}
	var upd *Event
	for _, e := range x.Events {
		if e.Kind == "assign" && e.Root == "GlobalVarsMain.C1" && e.Val.MentionsRoot("NitroSharedVars.KONV") {
			upd = e
		}
	}
	if def == nil || upd == nil {
		r.Ob("round-trip", "-", false, "concentration definition or transport update not found")
		return
	}
	// storage coefficient: terms of the update containing the concentration array
	v := renameLoopVars(stripVersions(upd.Val))
	stor := PZero()
	for _, t := range v.sortedTerms() {
		q := PZero()
		q.T[t.monoKey()] = t
		if q.MentionsRoot(def.Root) {
			stor = stor.Add(q)
		}
	}
	conc := cellP(def.Root, renameLoopVars(def.Idx[0]))
	coef := stor.Div(conc)
	back := coef.Mul(renameLoopVars(stripVersions(def.Val)))
	z := pVar("ζ")
	want := cellP("GlobalVarsMain.C1", z).Add(cellP("GlobalVarsMain.DN", z).Mul(pVar("wdt")).Scale(ratFrac(1, 2)))
	sameIdx := renameLoopVars(def.Idx[0]).Equal(z.Add(PInt(1))) && renameLoopVars(upd.Idx[0]).Equal(z)
	r.Ob("round-trip", p.Pos(upd.Pos), back.Equal(want) && sameIdx, fmt.Sprintf("storage term %s × definition %s = %s (must be C1[z] + DN[z]·wdt/2)", stor, renameLoopVars(stripVersions(def.Val)), back))
}

// ---------------------------------------------------------------- R5 clamp

func c02Clamp(p *Prog, r *Report) {
	r.Rule("C02.R5", "the non-negativity clamp of the transport update flags instability: the arm that stores 0 tests the value against the (negative) threshold and sets both flags; the tested value is the quantity the sibling arm stores into C1 (same units as the threshold)", 2)
	x := nmoveWalk(p)
	if x == nil {
		return
	}
	for _, e := range x.Events {
		if e.Kind != "assign" || e.Root != "GlobalVarsMain.C1" || !e.Val.IsZero() || len(e.Loops) == 0 {
			continue
		}
		// the guard "value < 0" where value is the transport update
		var val Poly
		for _, g := range flattenGuards(e.Guards) {
			if g.Kind == "cmp" && g.P.MentionsRoot("NitroSharedVars.KONV") {
				val = g.P
			}
		}
		if val.T == nil {
			continue
		}
		L := e.Loops[len(e.Loops)-1]
		flags := map[string]bool{}
		for _, f := range x.Events {
			if f.Kind == "assign" && f.InLoop(L) && (f.Root == "GlobalVarsMain.C1NotStable" || f.Root == "GlobalVarsMain.C1NotStableErr") {
				thr := false
				for _, g := range flattenGuards(f.Guards) {
					if g.Kind == "cmp" && g.P.MentionsRoot("GlobalVarsMain.C1stabilityVal") && g.P.MentionsRoot("NitroSharedVars.KONV") {
						// value − threshold < 0
						d := g.P.Add(cellP("GlobalVarsMain.C1stabilityVal"))
						if stripVersions(d).Equal(stripVersions(val)) && (g.Op == token.LSS || g.Op == token.LEQ) {
							thr = true
						}
					}
				}
				if thr && !f.Val.IsZero() {
					if c, isC := f.Val.Const(); !isC || c.Sign() != 0 {
						flags[f.Root] = true
					}
				}
			}
		}
		neg := false
		if fi := p.Funcs["hermes.NewGlobalVarsMain"]; fi != nil {
			ast.Inspect(fi.Decl.Body, func(n ast.Node) bool {
				if kv, ok := n.(*ast.KeyValueExpr); ok {
					if id, ok := kv.Key.(*ast.Ident); ok && id.Name == "C1stabilityVal" {
						if tv, ok := fi.Pkg.TypesInfo.Types[kv.Value]; ok && tv.Value != nil {
							if cp, ok := constPoly(tv.Value); ok {
								// the documented threshold: 1.5 kg N/ha below zero (frozen value: the default is the
								// only place where the threshold is stated; a laxer default leaves clamp additions unflagged)
								if c, _ := cp.Const(); c != nil && c.Sign() < 0 && c.Cmp(ratFrac(-3, 2)) == 0 {
									neg = true
								}
							}
						}
					}
				}
				return true
			})
		}
		ok := flags["GlobalVarsMain.C1NotStable"] && flags["GlobalVarsMain.C1NotStableErr"] && neg
		r.Ob("clamp-flags", p.Pos(e.Pos), ok, fmt.Sprintf("clamp arm sets flags %v under 'value < C1stabilityVal'; threshold default is the documented -1.5 kg N/ha: %v", keysOf(flags), neg))
		// the threshold is an amount of N (kg N/ha, like C1): the value that is tested against it must be the
		// very quantity the sibling arm stores into C1[z] — a value in other units (a concentration) is smaller
		// by orders of magnitude and can never reach the threshold
		var sib *Event
		for _, f := range x.Events {
			if f.Kind == "assign" && f.Root == "GlobalVarsMain.C1" && f != e && f.InLoop(L) && len(f.Idx) == 1 && f.Idx[0].Equal(e.Idx[0]) && !f.Val.IsZero() {
				for _, g := range flattenGuards(f.Guards) {
					if g.Kind == "cmp" && g.P.MentionsRoot("NitroSharedVars.KONV") {
						sib = f
					}
				}
			}
		}
		if sib == nil {
			r.Ob("clamp-units", p.Pos(e.Pos), false, "no sibling arm stores the non-negative transport result into C1[z]")
		} else {
			same := stripVersions(sib.Val).Equal(stripVersions(val))
			r.Ob("clamp-units", p.Pos(sib.Pos), same, fmt.Sprintf("the value tested against 0 and against the threshold is %s; the value stored into C1[z] is %s: must be the same quantity (same units as the threshold)", clip(stripVersions(val).String(), 90), clip(stripVersions(sib.Val).String(), 90)))
		}
		return
	}
	r.Ob("clamp-flags", "-", false, "no clamp 'C1[z] = 0 when the transported value is negative' found")
}

func keysOf(m map[string]bool) []string {
	var out []string
	for k := range m {
		out = append(out, shortRoot(k))
	}
	sort.Strings(out)
	return out
}

// ---------------------------------------------------------------- R6 who writes C1

var c1Writers = map[string]string{
	"hermes.HermesSession.Run": "irrigation N (guarded add), deposition (+floor), measurement overwrite",
	"hermes.Nitro":             "automatic organic fertiliser at sowing (+floor), tillage mixing (+floor)",
	"hermes.nmove":             "uptake, transport update, second half of the source (+floor)",
	"hermes.Denitr":            "denitrification debit (+floor), paired with CUMDENIT",
	"hermes.Denitmo":           "denitrification debit per depth group (+floor), paired with CUMDENIT",
	"hermes.Init":              "initial profile",
	"hermes.SimulateFertilizationAfterPrognose": "forecast fertiliser (non-negative add), paired with DUNGBED",
	"hermes.NewDefaultDailyOutputConfig":        "output binding takes the address for reading only",
}

func c02Writers(p *Prog, r *Report) {
	r.Rule("C02.R6", "who may write mineral N: every function that stores into (or takes the address of) the per-layer mineral N array is in the confirmed table", 7)
	fx := p.Fields()
	seen := map[string]bool{}
	for _, a := range fx.WriteSites(FieldRef{"GlobalVarsMain", "C1"}) {
		if seen[a.Fn.Key] {
			continue
		}
		seen[a.Fn.Key] = true
		reason, ok := c1Writers[a.Fn.Key]
		det := reason
		if !ok {
			det = "function is not a confirmed writer of the mineral N pool: an unaccounted source or sink breaks the balance"
		}
		r.Ob("writer:"+strings.TrimPrefix(a.Fn.Key, "hermes."), p.Pos(a.Pos), ok, det)
	}
}

// ---------------------------------------------------------------- R7 denitrification pairing

func c02Denit(p *Prog, r *Report) {
	r.Rule("C02.R7", "denitrification debits each layer with the fraction computed from that same layer: fraction_j ≡ C1[i_j]/Σgroup and the debit site pairs fraction_j with C1[i_j]; the counter gains what the groups lose", 12)
	// Denitmo: calls calcDenitLayer(&C1[k], fraction, denit)
	if x := walked(p, "hermes.Denitmo"); x != nil {
		for _, e := range x.Events {
			if e.Kind != "call" || len(e.Args) != 3 || e.Call == nil || len(e.Call.Args) != 3 {
				continue
			}
			ue, ok := e.Call.Args[0].(*ast.UnaryExpr)
			if !ok || ue.Op != token.AND {
				continue
			}
			st := newState()
			pr := x.path(st, ue.X)
			if !pr.ok || pr.root != "GlobalVarsMain.C1" || len(pr.idx) != 1 {
				continue
			}
			k := pr.idx[0]
			frac := e.Args[1]
			// resolve φ (fraction defined under "group sum > 0")
			var vals []Poly
			if t := frac.single(); t != nil && len(t.M) == 1 {
				if arms, has := x.Phis[t.M[0].A.Key]; has {
					for _, a := range arms {
						if a.Has {
							vals = append(vals, a.Val)
						}
					}
				}
			}
			if len(vals) == 0 {
				vals = []Poly{frac}
			}
			ok2 := false
			det := ""
			for _, v := range vals {
				v = stripVersions(v)
				// v = C1[i]/S
				num := cellP("GlobalVarsMain.C1", k)
				S := num.Div(v)
				// S must be a sum of C1 cells containing C1[k] with coefficient 1
				good := true
				has := false
				for _, t := range S.sortedTerms() {
					if len(t.M) != 1 || t.M[0].A.Kind != "cell" || t.M[0].A.Root != "GlobalVarsMain.C1" || t.M[0].E != 1 || t.C.Cmp(ratInt(1)) != 0 {
						good = false
					} else if t.M[0].A.Idx[0].Equal(k) {
						has = true
					}
				}
				det = fmt.Sprintf("layer C1[%s] is debited with fraction %s", k, v)
				if good && has && len(S.T) >= 2 {
					ok2 = true
					det += fmt.Sprintf(" = C1[%s]/(%s)", k, S)
				}
			}
			if !ok2 {
				det += ": the fraction was computed from a different layer, so N is booked as denitrified without being removed from (or is removed twice from) this layer"
			}
			// the amount distributed over the group must be the amount computed from this group's nitrate sum
			if ok2 {
				grp := map[string]bool{}
				for _, v := range vals {
					S := cellP("GlobalVarsMain.C1", k).Div(stripVersions(v))
					for _, t := range S.sortedTerms() {
						if len(t.M) == 1 && t.M[0].A.Root == "GlobalVarsMain.C1" {
							grp[t.M[0].A.Idx[0].String()] = true
						}
					}
				}
				amt := map[string]bool{}
				var collect func(q Poly, depth int)
				collect = func(q Poly, depth int) {
					q.walkAtoms(func(a *Atom) {
						if a.Kind == "cell" && a.Root == "GlobalVarsMain.C1" && len(a.Idx) == 1 {
							amt[stripVersions(a.Idx[0]).String()] = true
						}
						if a.Kind == "phi" && depth < 4 {
							for _, arm := range x.Phis[a.Key] {
								if arm.Has {
									collect(arm.Val, depth+1)
								}
							}
						}
					})
				}
				collect(e.Args[2], 0)
				same := len(amt) == len(grp)
				for kx := range grp {
					if !amt[kx] {
						same = false
					}
				}
				if !same {
					ok2 = false
					det += fmt.Sprintf("; but the amount %s handed to this layer was computed from the nitrate of layers %v, not of this layer's group %v: what is removed from the pool differs from what the counter books", clip(e.Args[2].String(), 40), keysOf(amt), keysOf(grp))
				} else {
					det += "; amount computed from the same group's nitrate sum"
				}
			}
			r.Ob(fmt.Sprintf("Denitmo:C1[%s]", k), p.Pos(e.Pos), ok2, det)
		}
	}
	// Denitr: fraction literal + loop debit
	if x := walked(p, "hermes.Denitr"); x != nil {
		n := 0
		var fracRoot string
		for _, e := range x.Events {
			if e.Kind == "assign" && e.Root == "GlobalVarsMain.C1" && len(e.Loops) > 0 {
				if c, isC := e.Val.Const(); isC && c.Sign() == 0 {
					continue // the floor arm
				}
				d := stripVersions(e.Val.Sub(e.Old))
				if d.IsZero() {
					continue
				}
				// d = −DENIT·fraction[z] with the same z as the target: every term carries fraction[z] once
				okAll := true
				for _, t := range d.sortedTerms() {
					cnt := 0
					for _, f := range t.M {
						if f.A.Kind == "cell" && !strings.Contains(f.A.Root, ".") && len(f.A.Idx) == 1 && f.E == 1 {
							if fracRoot == "" {
								fracRoot = f.A.Root
							}
							if f.A.Root == fracRoot && f.A.Idx[0].Equal(e.Idx[0]) {
								cnt++
							}
						}
					}
					if cnt != 1 {
						okAll = false
					}
				}
				n++
				r.Ob("Denitr:debit", p.Pos(e.Pos), okAll && fracRoot != "", fmt.Sprintf("C1[%s] is debited by (loss)·%s[%s] in every term: %v", e.Idx[0], fracRoot, e.Idx[0], okAll))
			}
		}
		for _, e := range x.Events {
			if e.Kind == "assign" && e.Root == fracRoot && fracRoot != "" && len(e.Idx) == 1 {
				k := e.Idx[0]
				v := stripVersions(e.Val)
				S := cellP("GlobalVarsMain.C1", k).Div(v)
				good, has := true, false
				for _, t := range S.sortedTerms() {
					if len(t.M) != 1 || t.M[0].A.Root != "GlobalVarsMain.C1" || t.C.Cmp(ratInt(1)) != 0 {
						good = false
					} else if t.M[0].A.Idx[0].Equal(k) {
						has = true
					}
				}
				n++
				r.Ob(fmt.Sprintf("Denitr:fraction[%s]", k), p.Pos(e.Pos), good && has && len(S.T) >= 2, fmt.Sprintf("fraction[%s] = %s", k, v))
			}
		}
		if n < 4 {
			r.Ob("Denitr", "-", false, "fraction table and debit loop of Denitr not recognised")
		}
	}
}

// ---------------------------------------------------------------- R8 source defined every day

func c02SourceDefined(p *Prog, r *Report) {
	r.Rule("C02.R8", "the mineralisation source is (re)defined for every layer of the mineralisation zone on every path of the daily routine (no stale source from an earlier day is transported)", 2)
	fi := p.Funcs["hermes.mineral"]
	x := walked(p, "hermes.mineral")
	if fi == nil || x == nil {
		r.Ob("mineral", "-", false, "hermes.mineral not found")
		return
	}
	var L *LoopCtx
	for _, e := range x.Events {
		if e.Kind == "assign" && e.Root == "GlobalVarsMain.DN" && len(e.Loops) == 1 {
			L = e.Loops[0]
		}
	}
	if L == nil {
		r.Ob("source-loop", "-", false, "no loop stores the source term DN")
		return
	}
	_, ends := forkBody(p, fi, L.Stmt)
	bad := 0
	lvName := ""
	if fs, isFor := L.Stmt.(*ast.ForStmt); isFor {
		if as, isAs := fs.Init.(*ast.AssignStmt); isAs {
			if id, isId := as.Lhs[0].(*ast.Ident); isId {
				lvName = id.Name
			}
		}
	}
	for _, st := range ends {
		cells := storedCells(st, "GlobalVarsMain.DN")
		ok := len(cells) == 1 && st.term == 0
		why := "no store of DN on this path"
		if st.term != 0 {
			why = "path leaves the iteration early without defining DN"
		}
		if len(cells) == 1 && lvName != "" && !cells[0].idx[0].Equal(pVar(lvName).Sub(PInt(1))) {
			ok = false
			why = "stored at index " + cells[0].idx[0].String()
		}
		if !ok {
			bad++
			r.Ob("stale-source", p.Pos(L.Stmt.Pos()), false, fmt.Sprintf("path [%s]: %s — the previous day's source would be transported again", shortGuards(st.guards), why))
		}
	}
	r.Ob("all-paths", p.Pos(L.Stmt.Pos()), bad == 0 && len(ends) >= 2, fmt.Sprintf("%d paths through one iteration of the mineralisation loop, %d without a fresh DN for the iteration's layer", len(ends), bad))
	r.Ob("paths-enumerated", p.Pos(L.Stmt.Pos()), len(ends) >= 2, fmt.Sprintf("%d paths enumerated", len(ends)))
}

func shortGuards(gs []*Cond) string {
	s := guardKeys(gs)
	if len(s) > 300 {
		s = s[:300] + "…"
	}
	return s
}
