package main

import "fmt"

func debugWriters(p *Prog, st, f string) {
	fx := p.Fields()
	for _, a := range fx.WriteSites(FieldRef{st, f}) {
		fmt.Printf("  %s %s addr=%v\n", p.Pos(a.Pos), a.Fn.Key, a.Addr)
	}
}

func debugErrSites(p *Prog) {
	s := p.SSA()
	reach := s.reachable(s.runFn())
	for _, e := range errSites(s, reach) {
		fmt.Printf("%v %s  %s -> %s : %s\n", e.Propagate, instrPos(p, e.Instr), shortFn(e.Caller), shortFn(e.Callee), e.How)
	}
}
