package main

import "fmt"

func debugWriters(p *Prog, st, f string) {
	fx := p.Fields()
	for _, a := range fx.WriteSites(FieldRef{st, f}) {
		fmt.Printf("  %s %s addr=%v\n", p.Pos(a.Pos), a.Fn.Key, a.Addr)
	}
}
