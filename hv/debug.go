package main

import (
	"fmt"
	"os"
	"runtime/pprof"
	"sort"
	"strings"
)

func debugWriters(p *Prog, st, f string) {
	fx := p.Fields()
	for _, a := range fx.WriteSites(FieldRef{st, f}) {
		fmt.Printf("  %s %s addr=%v\n", p.Pos(a.Pos), a.Fn.Key, a.Addr)
	}
}

func debugErrSites(p *Prog) {
	s := p.SSA()
	reach := s.reachable(s.runFn())
	for _, e := range errSites(s, reach) {
		fmt.Printf("%v %s  %s -> %s : %s\n", e.Propagate, instrPos(p, e.Instr), shortFn(e.Caller), shortFn(e.Callee), e.How)
	}
}

func domainDebug(p *Prog, keys []string) {
	if pf := os.Getenv("HV_PROF"); pf != "" {
		f, _ := os.Create(pf)
		pprof.StartCPUProfile(f)
		defer pprof.StopCPUProfile()
	}
	as := newAssumptions()
	if len(keys) == 0 {
		for k, fi := range p.Funcs {
			if strings.HasPrefix(k, "hermes.") && fi.Decl != nil && fi.Decl.Body != nil && !strings.HasSuffix(p.Fset.Position(fi.Decl.Pos()).Filename, "_test.go") {
				keys = append(keys, k)
			}
		}
		sort.Strings(keys)
	}
	res, err := runDomain(p, keys, as)
	if err != nil {
		fmt.Println("ERR", err)
		return
	}
	tot, okn := 0, 0
	for _, k := range keys {
		w := res.walks[k]
		n, g := 0, 0
		for _, o := range w.obs {
			n++
			if o.OK {
				g++
			}
		}
		tot += n
		okn += g
		if n == 0 {
			continue
		}
		fmt.Printf("== %s: %d obligations, %d proved\n", k, n, g)
		for _, o := range w.obs {
			if !o.OK {
				env := newSignEnv(w.x, o.Facts, o.Loops, as)
				fmt.Printf("   UNPROVED %s %s [%s] need %s got %s (%s)\n      unknown: %v\n      if %s\n", p.Pos(o.Pos), o.Kind, clip(o.Operand(), 300), o.Need, o.Got, o.How, env.blockers(o.Op), clip(guardKeys(o.Facts), 300))
			} else if len(o.Assumed) > 0 {
				fmt.Printf("   proved   %s %s [%s] assuming %v\n", p.Pos(o.Pos), o.Kind, clip(o.Operand(), 100), o.Assumed)
			}
		}
	}
	fmt.Printf("TOTAL %d obligations, %d proved\n", tot, okn)
}

func domainScopeDebug(p *Prog) {
	keys := domainScope(p, []string{"hermes.HermesSession.Run"}, domainExcluded)
	fmt.Println(len(keys), "functions")
	domainDebug(p, keys)
}
