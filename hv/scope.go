package main

// Sub-step scope: which functions run once per sub-step, and under which
// parameter names they receive the sub-step length and the sub-step number.

import (
	"go/token"
	"sort"
)

type scopeFn struct {
	Key  string
	Wdt  string // parameter carrying the sub-step length
	Subd string // parameter carrying the sub-step number
	X    *Exec
}

type substepInfo struct {
	Run      *Exec
	Loop     *LoopCtx
	Calls    []*Event // calls in the sub-step loop that receive the loop variable
	Fns      []*scopeFn
	WdtArg   Poly
	Problems []string
}

var subCache *substepInfo

func substepScope(p *Prog) *substepInfo {
	if subCache != nil {
		return subCache
	}
	si := &substepInfo{}
	subCache = si
	x := walked(p, "hermes.HermesSession.Run")
	if x == nil {
		si.Problems = append(si.Problems, "run closure not found")
		return si
	}
	si.Run = x
	// the sub-step loop: innermost loop of a call to Water that receives the
	// loop's induction variable
	for _, e := range x.Events {
		if e.Kind != "call" || e.Name != "hermes.Water" || len(e.Loops) == 0 {
			continue
		}
		L := e.Loops[len(e.Loops)-1]
		if L.Var == nil {
			continue
		}
		for _, a := range e.Args {
			if a.Equal(PAtom(L.Var)) {
				si.Loop = L
			}
		}
	}
	if si.Loop == nil {
		si.Problems = append(si.Problems, "no loop passes its induction variable to Water")
		return si
	}
	seen := map[string]bool{}
	var add func(key string, wdt, subd string)
	add = func(key string, wdt, subd string) {
		if seen[key] {
			return
		}
		seen[key] = true
		cx := walked(p, key)
		if cx == nil {
			return
		}
		sf := &scopeFn{Key: key, Wdt: wdt, Subd: subd, X: cx}
		si.Fns = append(si.Fns, sf)
		// callees that receive wdt outside a first-sub-step guard
		for _, e := range cx.Events {
			if e.Kind != "call" || e.Callee == nil {
				continue
			}
			t := p.ByObj[e.Callee]
			if t == nil {
				continue
			}
			if subd != "" && guardedBy(e, pVar(subd).Sub(PInt(1)), token.EQL) {
				continue
			}
			names := paramNames(t.Decl)
			cw, cs := "", ""
			for i, a := range e.Args {
				if i >= len(names) {
					break
				}
				if wdt != "" && a.Equal(pVar(wdt)) {
					cw = names[i]
				}
				if subd != "" && a.Equal(pVar(subd)) {
					cs = names[i]
				}
			}
			if cw != "" || cs != "" {
				add(t.Key, cw, cs)
			}
		}
	}
	type pend struct {
		e     *Event
		t     *FuncInfo
		subd  string
		names []string
	}
	var pends []pend
	for _, e := range x.Events {
		if e.Kind != "call" || e.Callee == nil || !innermost(e, si.Loop) {
			continue
		}
		t := p.ByObj[e.Callee]
		if t == nil {
			continue
		}
		// not under SUBD == 1
		if guardedBy(e, PAtom(si.Loop.Var).Sub(PInt(1)), token.EQL) {
			continue
		}
		names := paramNames(t.Decl)
		subd := ""
		for i, a := range e.Args {
			if i < len(names) && a.Equal(PAtom(si.Loop.Var)) {
				subd = names[i]
			}
		}
		if subd == "" {
			continue
		}
		si.Calls = append(si.Calls, e)
		pends = append(pends, pend{e, t, subd, names})
	}
	// the sub-step length: the non-constant float argument common to all calls
	common := map[string]int{}
	val := map[string]Poly{}
	for _, pd := range pends {
		for i, a := range pd.e.Args {
			if _, isC := a.Const(); isC || i >= len(pd.e.Call.Args) {
				continue
			}
			if !isNumeric(x.Info.TypeOf(pd.e.Call.Args[i])) || isIntegerType(x.Info.TypeOf(pd.e.Call.Args[i])) {
				continue
			}
			common[a.String()]++
			val[a.String()] = a
		}
	}
	for k, n := range common {
		if n == len(pends) && len(pends) > 0 {
			si.WdtArg = val[k]
		}
	}
	for _, pd := range pends {
		wdt := ""
		for i, a := range pd.e.Args {
			if si.WdtArg.T != nil && i < len(pd.names) && a.Equal(si.WdtArg) {
				wdt = pd.names[i]
			}
		}
		add(pd.t.Key, wdt, pd.subd)
	}
	sort.Slice(si.Fns, func(i, j int) bool { return si.Fns[i].Key < si.Fns[j].Key })
	return si
}
