package main

import (
	"fmt"
	"go/ast"
	"go/token"
	"go/types"
	"sort"
	"strings"
)

func init() { register("C01", checkC01) }

// Day-rate table B.1: quantities defined once per day (amount per day) and
// consumed in sub-step scope.  Reasons in DESIGN.md Appendix B.1.
var dayRatesWater = map[string]string{
	"GlobalVarsMain.TP":     "root water uptake cm/d (Evatra)",
	"GlobalVarsMain.FLUSS0": "surface flux cm/d (Evatra)",
	"WaterSharedVars.EV":    "evaporation demand per layer cm/d (Evatra)",
	"GlobalVarsMain.ETA":    "actual evaporation cm/d (Evatra)",
	"GlobalVarsMain.CAPS":   "capillary rise table cm/d (Hydro)",
}
var dayRatesN = map[string]string{
	"GlobalVarsMain.DN":      "mineralisation source kg N/ha/d (mineral)",
	"GlobalVarsMain.PE":      "crop N uptake kg N/ha/d (PhytoOut)",
	"GlobalVarsMain.SCHNORR": "N fixation kg N/ha/d (PhytoOut)",
}

func checkC01(p *Prog, r *Report) {
	c01R1(p, r, "C01.R1")
	rateScaling(p, r, "C01.R2", dayRatesWater, 19)
	c01R3(p, r)
	c01R4(p, r)
	dayHandover(p, r, "C01.R5")
	c01Sweeps(p, r)
	constantLevelRule(p, r, "C01.R7")
	c01ReportingDepth(p, r, "C01.R8")
	// the balance a user takes from the result files closes only if the writer prints the terms as computed (shared with C05.R11)
	recordValueRule(p, r, "C01.R9")
	// a constant level given as a series stays constant only if the reader keeps exactly the requested id's lines (shared with C20.R6)
	c20SeriesIdAs(p, r, "C01.R10")
}

// resolvePhi substitutes φ atoms of q by the value of arm k.
func resolvePhi(x *Exec, q Poly, k int) Poly {
	for depth := 0; depth < 4; depth++ {
		changed := false
		q = q.Subst(func(a *Atom) (Poly, bool) {
			if a.Kind == "phi" {
				if arms, ok := x.Phis[a.Key]; ok && k < len(arms) && arms[k].Has {
					changed = true
					return arms[k].Val, true
				}
			}
			return Poly{}, false
		})
		if !changed {
			break
		}
	}
	return q
}

func phiAtoms(q Poly) []*Atom {
	var out []*Atom
	seen := map[string]bool{}
	q.walkAtoms(func(a *Atom) {
		if a.Kind == "phi" && !seen[a.Key] {
			seen[a.Key] = true
			out = append(out, a)
		}
	})
	return out
}

// loopBounds returns (lo, hi) of a counted loop "for v := lo; v <=/< B; v++".
func loopBounds(x *Exec, L *LoopCtx) (lo, hi Poly, unit bool, why string) {
	if L.Var == nil || L.Cond == nil || L.Cond.Kind != "cmp" {
		return lo, hi, false, "not a counted loop with a comparison header"
	}
	v := PAtom(L.Var)
	lo = L.Lo
	P := L.Cond.P
	var coef int64
	for _, t := range P.T {
		if len(t.M) == 1 && t.M[0].A == L.Var && t.M[0].E == 1 && t.C.IsInt() {
			coef = t.C.Num().Int64()
		}
	}
	switch {
	case coef == 1: // v - B op 0
		B := v.Sub(P)
		switch L.Cond.Op {
		case token.LEQ:
			hi = B
		case token.LSS:
			hi = B.Sub(PInt(1))
		default:
			return lo, hi, false, "unsupported loop comparison " + L.Cond.Key()
		}
	case coef == -1: // B - v op 0
		B := P.Add(v)
		switch L.Cond.Op {
		case token.GEQ:
			hi = B
		case token.GTR:
			hi = B.Sub(PInt(1))
		default:
			return lo, hi, false, "unsupported loop comparison " + L.Cond.Key()
		}
	default:
		return lo, hi, false, "induction variable does not occur linearly in " + L.Cond.Key()
	}
	// unit step: the only assignment to the variable inside the loop is v+1
	n := 0
	for _, e := range x.Events {
		if e.Kind == "assign" && e.Local == L.VarObj && e.InLoop(L) {
			n++
			if !e.Val.Equal(v.Add(PInt(1))) {
				return lo, hi, false, "induction variable is assigned " + e.Val.String()
			}
		}
	}
	return lo, hi, n == 1, ""
}

func c01R1(p *Prog, r *Report, rule string) {
	r.Rule(rule, "sub-step partition: trip count n and sub-step length w of the sub-step loop satisfy n·w ≡ DT on every arm that defines them; int() only applied to integral values; Water and Nitro receive the same w", 3)
	si := substepScope(p)
	if si.Loop == nil {
		r.Ob("substep-loop", "-", false, "sub-step loop not found: "+strings.Join(si.Problems, "; "))
		return
	}
	x := si.Run
	pos := p.Pos(si.Loop.Stmt.Pos())
	// (c) same w to all sub-step kernels
	names := []string{}
	same := si.WdtArg.T != nil
	for _, e := range si.Calls {
		names = append(names, e.Name)
	}
	sort.Strings(names)
	hasWater, hasNitro := false, false
	for _, n := range names {
		if n == "hermes.Water" {
			hasWater = true
		}
		if n == "hermes.Nitro" {
			hasNitro = true
		}
	}
	r.Ob("same-wdt", pos, same && hasWater && hasNitro, fmt.Sprintf("sub-step kernels %v all receive the sub-step length %s (water and transport must use one step)", names, polyOr(si.WdtArg)))
	lo, hi, unit, why := loopBounds(x, si.Loop)
	if why != "" {
		r.Ob("loop-shape", pos, false, why)
		return
	}
	r.Ob("loop-shape", pos, unit && lo.Equal(PInt(1)), fmt.Sprintf("sub-step loop runs %s = %s .. %s step 1", si.Loop.Var.Key, lo, hi))
	n := hi.Sub(lo).Add(PInt(1))
	w := si.WdtArg
	// who writes DT: only the constructor literal and SetByIndex(1)
	dtOne := true
	var dtSites []string
	for _, a := range p.Fields().WriteSites(FieldRef{"GlobalVarsMain", "DT"}) {
		ok := false
		if call, isCall := a.Node.(*ast.CallExpr); isCall && len(call.Args) == 1 {
			if tv, has := a.Fn.Pkg.TypesInfo.Types[call.Args[0]]; has && tv.Value != nil && tv.Value.ExactString() == "1" {
				if se, isSel := call.Fun.(*ast.SelectorExpr); isSel && se.Sel.Name == "SetByIndex" {
					ok = true
				}
			}
		}
		dtSites = append(dtSites, fmt.Sprintf("%s(%v)", p.Pos(a.Pos), ok))
		if !ok {
			dtOne = false
		}
	}
	if off, has := x.dualOff["GlobalVarsMain.DT"]; !has || off != 0 {
		dtOne = false
	}
	dt := cellP("GlobalVarsMain.DT.Index")
	arms := 1
	for _, a := range append(phiAtoms(n), phiAtoms(w)...) {
		if k := len(x.Phis[a.Key]); k > arms {
			arms = k
		}
	}
	for k := 0; k < arms; k++ {
		nk := stripRound(stripInt(stripRound(resolvePhi(x, n, k))))
		wk := resolvePhi(x, w, k)
		prod := nk.Mul(wk)
		diff := prod.Sub(dt)
		ok := diff.IsZero()
		detail := fmt.Sprintf("arm %d: n = %s, w = %s, n·w − DT = %s", k, nk, wk, diff)
		if !ok && dtOne {
			d1 := diff.Subst(func(a *Atom) (Poly, bool) {
				if a.Kind == "cell" && a.Root == "GlobalVarsMain.DT.Index" {
					return PInt(1), true
				}
				return Poly{}, false
			})
			if d1.IsZero() {
				ok = true
				detail += fmt.Sprintf("; ≡ 0 with DT ≡ 1 (all writers of DT set 1: %v)", dtSites)
			}
		}
		// n must not contain an int() of a possibly fractional value
		frac := false
		nk.walkAtoms(func(a *Atom) {
			if a.Kind == "call" && a.Fn == "int" {
				frac = true
			}
		})
		if frac {
			ok = false
			detail += "; the trip count truncates a value that is not provably integral"
		}
		r.Ob(fmt.Sprintf("partition:arm%d", k), pos, ok, detail)
	}
	// float soundness of the conversion: the identity n·w ≡ DT above is in real arithmetic; in float64 a
	// quotient such as DT/(1/n) can fall just below n (1/(1/93) = 92.99999999999999), and int() then drops a
	// sub-step.  Every definition of the variable converted by int() in the loop bound must therefore be
	// free of float division or be wrapped in a rounding call.
	var bound ast.Expr
	if fs, ok := si.Loop.Stmt.(*ast.ForStmt); ok {
		if be, ok := fs.Cond.(*ast.BinaryExpr); ok {
			bound = be.Y
		}
	}
	var conv *ast.Ident
	if call, ok := bound.(*ast.CallExpr); ok && len(call.Args) == 1 {
		if id, ok := call.Fun.(*ast.Ident); ok && id.Name == "int" {
			conv, _ = call.Args[0].(*ast.Ident)
		}
	}
	if conv == nil {
		r.Ob("float-exact", pos, false, "the sub-step loop bound is not int(<variable>)")
		return
	}
	obj := x.Info.Uses[conv]
	nDefs := 0
	for _, e := range x.Events {
		if e.Kind != "assign" || e.Local == nil || e.Local != obj {
			continue
		}
		as, ok := e.Stmt.(*ast.AssignStmt)
		if !ok {
			continue
		}
		for i, l := range as.Lhs {
			id, isId := l.(*ast.Ident)
			if !isId || (x.Info.Uses[id] != obj && x.Info.Defs[id] != obj) || i >= len(as.Rhs) {
				continue
			}
			nDefs++
			rhs := as.Rhs[i]
			rounded := false
			if call, ok := rhs.(*ast.CallExpr); ok {
				if f := callee(x.Info, call); f != nil && f.Pkg() != nil && f.Pkg().Path() == "math" && (f.Name() == "Round" || f.Name() == "RoundToEven") {
					rounded = true
				}
			}
			div := false
			ast.Inspect(rhs, func(m ast.Node) bool {
				if call, ok := m.(*ast.CallExpr); ok {
					if f := callee(x.Info, call); f != nil && f.Pkg() != nil && f.Pkg().Path() == "math" && (f.Name() == "Round" || f.Name() == "RoundToEven") {
						return false // a rounded quotient is an exact integer again
					}
				}
				if be, ok := m.(*ast.BinaryExpr); ok && be.Op == token.QUO {
					if tv, ok := x.Info.Types[be]; ok && tv.Value == nil && !isIntegerType(tv.Type) {
						div = true
					}
				}
				return true
			})
			okF := rounded || !div
			r.Ob("float-exact", p.Pos(as.Pos()), okF, fmt.Sprintf("%s = %s: %s", conv.Name, types.ExprString(rhs), map[bool]string{true: "exact integer in float64 (no float division, or rounded to the nearest integer before int())", false: "a float quotient is truncated or rounded in one direction only: for n = 93, 99, 105, … the quotient 1/(1/n) is just below n (int/Floor drop a sub-step and its share of the day's water), for n = 49, 98, 103, … just above n (Ceil adds a sub-step: the day's uptake and evaporation are applied (n+1)/n times); only rounding to the nearest integer is safe"}[okF]))
		}
	}
	if nDefs == 0 {
		r.Ob("float-exact", pos, false, "no definition of the converted trip-count variable found")
	}
}

// stripRound removes round/ceil/floor/trunc around values that are integral in real arithmetic.
func stripRound(q Poly) Poly {
	return q.Subst(func(a *Atom) (Poly, bool) {
		if a.Kind == "call" && (a.Fn == "round" || a.Fn == "ceil" || a.Fn == "floor" || a.Fn == "trunc") && len(a.Args) == 1 {
			in := stripRound(a.Args[0])
			if isIntegral(stripInt(in)) {
				return in, true
			}
		}
		return Poly{}, false
	})
}

func polyOr(q Poly) string {
	if q.T == nil {
		return "<none>"
	}
	return q.String()
}

// rateScaling is the extensivity rule shared by C01.R2, C02.R1 and C07.R3.
func rateScaling(p *Prog, r *Report, rule string, table map[string]string, min int) {
	r.Rule(rule, "rate scaling: in sub-step scope every additive use of a per-day rate carries the sub-step length wdt with degree exactly 1, or runs on the first sub-step only and then without wdt (amounts per day are applied exactly once per day)", min)
	si := substepScope(p)
	if si.Loop == nil || len(si.Fns) == 0 {
		r.Ob("scope", "-", false, "sub-step scope not found: "+strings.Join(si.Problems, "; "))
		return
	}
	roots := map[string]bool{}
	for k := range table {
		roots[k] = true
	}
	used := map[string]int{}
	type pendArm struct {
		key, pos, tgt, root, fn, term string
		first                         bool
	}
	var pend []pendArm
	for _, sf := range si.Fns {
		x := sf.X
		fn := strings.TrimPrefix(sf.Key, "hermes.")
		wdtKey := sf.Wdt
		for _, e := range x.Events {
			var val Poly
			var tgt string
			switch e.Kind {
			case "assign":
				if e.Local != nil && len(e.Idx) == 0 {
					continue // scalar temporaries are transparent (forwarded)
				}
				if roots[e.Root] {
					continue // the rate itself is being (re)defined
				}
				val, tgt = e.Val, shortRoot(e.Root)
			case "abstract":
				val, tgt = e.Val, "local "+e.Name
			default:
				continue
			}
			first := sf.Subd != "" && guardedBy(e, pVar(sf.Subd).Sub(PInt(1)), token.EQL)
			for _, t := range val.sortedTerms() {
				root, atom := termRateRoot(t, roots)
				if root == "" {
					continue
				}
				used[root]++
				wdeg := 0
				if wdtKey != "" {
					wdeg = t.DegreeIn(wdtKey)
				}
				rdeg := 0
				for _, f := range t.M {
					if f.A == atom {
						rdeg = f.E
					}
				}
				key := fmt.Sprintf("%s:%s←%s", fn, tgt, shortRoot(root))
				notFirst := sf.Subd != "" && guardedBy(e, pVar(sf.Subd).Sub(PInt(1)), token.NEQ, token.GTR)
				switch {
				case rdeg != 1:
					r.Ob(key, p.Pos(e.Pos), false, fmt.Sprintf("per-day rate %s enters %s non-linearly (term %s): cannot be judged", root, tgt, termStr(t)))
				case first && wdeg == 0:
					r.Ob(key, p.Pos(e.Pos), true, fmt.Sprintf("term %s applied on the first sub-step only, unscaled (once per day)", termStr(t)))
				case (first || notFirst) && wdeg == 1:
					// scaled use that is split over the two arms of a first/later sub-step diamond
					pend = append(pend, pendArm{key: key, pos: p.Pos(e.Pos), first: first, tgt: e.Root, root: root, fn: fn, term: termStr(t)})
				case first && wdeg != 0:
					r.Ob(key, p.Pos(e.Pos), false, fmt.Sprintf("term %s runs on the first sub-step only but is scaled by %s^%d: only a fraction of the day's amount is applied", termStr(t), wdtKey, wdeg))
				case !first && !notFirst && wdeg == 1:
					r.Ob(key, p.Pos(e.Pos), true, fmt.Sprintf("term %s scaled by the sub-step length", termStr(t)))
				default:
					r.Ob(key, p.Pos(e.Pos), false, fmt.Sprintf("per-day rate %s is added to %s on every sub-step with %s^%d (term %s): on a day with k sub-steps the amount is applied k times", root, tgt, orNone(wdtKey), wdeg, termStr(t)))
				}
			}
		}
	}
	for _, a := range pend {
		sib := false
		for _, b := range pend {
			if b.fn == a.fn && b.tgt == a.tgt && b.root == a.root && b.first != a.first {
				sib = true
			}
		}
		if sib {
			r.Ob(a.key, a.pos, true, fmt.Sprintf("term %s scaled by the sub-step length; the first-sub-step arm and the later-sub-step arm both apply it", a.term))
		} else if a.first {
			r.Ob(a.key, a.pos, false, fmt.Sprintf("term %s runs on the first sub-step only but is scaled by the sub-step length, and no later-sub-step arm applies the rest: only a fraction of the day's amount is applied", a.term))
		} else {
			r.Ob(a.key, a.pos, false, fmt.Sprintf("term %s is applied on later sub-steps only: the first sub-step's share is missing", a.term))
		}
	}
	// table validation: every rate is a field that is consumed in scope
	var ks []string
	for k := range table {
		ks = append(ks, k)
	}
	sort.Strings(ks)
	for _, k := range ks {
		if used[k] == 0 {
			r.Ob("table:"+shortRoot(k), "-", false, "day-rate "+k+" ("+table[k]+") is no longer consumed in sub-step scope: the frozen table does not describe this tree")
		}
	}
}

func orNone(s string) string {
	if s == "" {
		return "<no wdt parameter>"
	}
	return s
}

func termStr(t *Term) string {
	q := PZero()
	q.T[t.monoKey()] = t
	return q.String()
}

// ---------------------------------------------------------------- R3

// carried finds the local variable v of a cascade loop such that on every
// continuing path the flux stored at the lower interface is s·v_end.
func c01R3(p *Prog, r *Report) {
	r.Rule("C01.R3", "local conservation in Water: per path of one cascade iteration Δstorage(layer) ≡ flux in − flux out (− drain); overflow and capillary increments are mirrored in the interface-flux array; uptake and final conversion are consistent", 9)
	fi := p.Funcs["hermes.Water"]
	x := walked(p, "hermes.Water")
	if fi == nil || x == nil {
		r.Ob("Water", "-", false, "function hermes.Water not found")
		return
	}
	q1 := "GlobalVarsMain.Q1"
	wat := waterArrayRoot(x)
	if wat == "" {
		r.Ob("storage-array", p.Pos(fi.Decl.Pos()), false, "local layer-storage array (written at [1][·] and converted to WG[1]) not found")
		return
	}
	fluss := cellP("GlobalVarsMain.FLUSS0")
	foundInf, foundEva, foundOver := false, false, false
	for _, L := range loopsOf(x) {
		evs := eventsInLoop(x, L)
		if len(evs) == 0 {
			continue
		}
		// classify by guard and stores
		storesW1, storesQ := false, false
		for _, e := range evs {
			if e.Kind == "assign" && innermost(e, L) {
				if e.Root == wat && len(e.Idx) == 2 && e.Idx[0].Equal(PInt(1)) {
					storesW1 = true
				}
				if e.Root == q1 {
					storesQ = true
				}
			}
		}
		if !storesW1 || !storesQ || len(evs[0].Loops) != 1 {
			continue
		}
		e0 := evs[0]
		switch {
		case guardedBy(e0, fluss, token.GTR):
			foundInf = true
			cascadeIdentity(p, r, fi, x, L, wat, +1, "infiltration")
		case guardedBy(e0, fluss, token.LSS):
			foundEva = true
			cascadeIdentity(p, r, fi, x, L, wat, -1, "evaporation")
		default:
			if !e0.HasGuard(func(c *Cond) bool { return c.Kind == "cmp" && !c.Loop && c.P.MentionsRoot("GlobalVarsMain.FLUSS0") }) {
				// unconditional loop over layers that stores WATER[1] and Q1: overflow cascade
				if overflowIdentity(p, r, fi, x, L, wat) {
					foundOver = true
				}
			}
		}
	}
	r.Expect("infiltration-cascade", foundInf, "loop under FLUSS0 > 0 storing "+wat+"[1][k] and Q1[k]")
	r.Expect("evaporation-cascade", foundEva, "loop under FLUSS0 < 0 storing "+wat+"[1][k] and Q1[k+1]")
	r.Expect("overflow-cascade", foundOver, "loop pushing water above field capacity to the next layer")
	capillaryMirror(p, r, x, wat)
	uptakeAndFinal(p, r, x, wat)
}

// waterArrayRoot: the local array whose [1][i] cells are converted into WG[1].
func waterArrayRoot(x *Exec) string {
	for _, e := range x.Events {
		if e.Kind == "assign" && e.Root == "GlobalVarsMain.WG" && len(e.Idx) == 2 && e.Idx[0].Equal(PInt(1)) {
			for r := range e.Val.Roots() {
				if !strings.Contains(r, ".") {
					return r
				}
			}
		}
	}
	return ""
}

func cascadeIdentity(p *Prog, r *Report, fi *FuncInfo, x *Exec, L *LoopCtx, wat string, sign int, name string) {
	fx, ends := forkBody(p, fi, L.Stmt)
	_ = fx
	pos := p.Pos(L.Stmt.Pos())
	fs, ok := L.Stmt.(*ast.ForStmt)
	if !ok {
		r.Ob(name+":shape", pos, false, "cascade is not a counted for loop")
		return
	}
	// loop variable as named atom in the blank state
	var lv Poly
	lvName := ""
	if as, ok := fs.Init.(*ast.AssignStmt); ok && len(as.Lhs) == 1 {
		if id, ok := as.Lhs[0].(*ast.Ident); ok {
			lv = pVar(id.Name)
			lvName = id.Name
		}
	}
	if lv.T == nil {
		r.Ob(name+":shape", pos, false, "loop variable not found")
		return
	}
	q1 := "GlobalVarsMain.Q1"
	// layer index k (0-based) and lower-interface index: taken from the stores
	npaths := 0
	// candidate carried variables: float locals declared outside the loop that some path assigns
	cand := map[types.Object]bool{}
	for _, st := range ends {
		for obj := range st.vars {
			if obj.Pos() > fs.Pos() && obj.Pos() < fs.End() {
				continue
			}
			if isIntegerType(obj.Type()) || !isNumeric(obj.Type()) {
				continue
			}
			cand[obj] = true
		}
	}
	for pi, st := range ends {
		if st.term == 1 {
			continue
		}
		// storage cell written at [1][k]
		var kIdx, qIdx []Poly
		var wNew, qNew Poly
		nW, nQ := 0, 0
		for _, cv := range storedCells(st, wat) {
			if len(cv.idx) == 2 && cv.idx[0].Equal(PInt(1)) && !isInnerLoopIdx(cv.idx[1]) {
				kIdx, wNew = cv.idx, cv.val
				nW++
			}
		}
		for _, cv := range storedCells(st, q1) {
			if !isInnerLoopIdx(cv.idx[0]) {
				qIdx, qNew = cv.idx, cv.val
				nQ++
			}
		}
		label := fmt.Sprintf("%s:path%d", name, pi)
		if nW != 1 || nQ != 1 {
			r.Ob(label, pos, false, fmt.Sprintf("expected exactly one store to %s[1][k] and one to Q1[·] per path, found %d and %d (guards: %s)", wat, nW, nQ, guardKeys(st.guards)))
			continue
		}
		npaths++
		k := kIdx[1]
		// lower interface of layer k is k+1
		if !qIdx[0].Equal(k.Add(PInt(1))) {
			r.Ob(label, pos, false, fmt.Sprintf("flux stored at Q1[%s] is not the lower interface (%s) of the layer whose storage is updated", qIdx[0], k.Add(PInt(1))))
			continue
		}
		w0 := cellP(wat, PInt(0), k)
		dStor := wNew.Sub(w0)
		dDrain := finalCell(st, "GlobalVarsMain.QDRAIN").Sub(cellP("GlobalVarsMain.QDRAIN"))
		if !dDrain.IsZero() {
			// the drain is set, not incremented: sound only if it is zero at
			// loop entry and set in a single iteration (guard loopvar == invariant)
			entryZero := false
			if m, ok := L.Entry.cells["GlobalVarsMain.QDRAIN"]; ok {
				if cv, ok := m[""]; ok && cv.val.IsZero() {
					entryZero = true
				}
			}
			single := false
			for _, g := range flattenGuards(st.guards) {
				if g.Kind == "cmp" && g.Op == token.EQL && g.P.MentionsAtom(varAtom(lvName)) {
					single = true
				}
			}
			if entryZero && single {
				dDrain = finalCell(st, "GlobalVarsMain.QDRAIN")
			}
		}
		// carried variable: a local whose end value is sign·Q_out on continuing paths
		broke := st.term == 2
		var vHead, vEnd Poly
		found := false
		for obj := range cand {
			val, has := st.vars[obj]
			if !has {
				val = pVar(obj.Name())
			}
			head := pVar(obj.Name())
			if !broke {
				if val.Equal(qNew.Scale(ratInt(int64(sign)))) {
					vHead, vEnd, found = head, val, true
				}
			}
		}
		if broke {
			// flux out must be zero, storage change equals what came in
			var cands []string
			okp := false
			for obj := range cand {
				head := pVar(obj.Name())
				if dStor.Add(dDrain).Equal(head.Scale(ratInt(int64(sign)))) {
					okp = true
					cands = append(cands, obj.Name())
				}
			}
			if _, isC := qNew.Const(); !isC || !qNew.IsZero() {
				okp = false
			}
			r.Ob(label, pos, okp, fmt.Sprintf("terminating path [%s]: Δstorage+Δdrain = %s must equal the carried inflow (%v) and Q1[%s] = %s must be 0", guardKeys(st.guards), dStor.Add(dDrain), cands, qIdx[0], qNew))
			continue
		}
		if !found {
			r.Ob(label, pos, false, fmt.Sprintf("continuing path [%s]: no carried variable equals %+d·Q1[%s] = %s at the end of the iteration (the next layer would not receive what this layer passed on)", guardKeys(st.guards), sign, qIdx[0], qNew))
			continue
		}
		// Δstorage + Δdrain ≡ sign·(vHead − vEnd)
		lhs := dStor.Add(dDrain)
		rhs := vHead.Sub(vEnd).Scale(ratInt(int64(sign)))
		r.Ob(label, pos, lhs.Equal(rhs), fmt.Sprintf("continuing path [%s]: Δ%s[1][%s] + ΔQDRAIN = %s ; inflow − outflow = %s", guardKeys(st.guards), wat, k, lhs, rhs))
	}
	if npaths < 2 {
		r.Ob(name+":paths", pos, false, fmt.Sprintf("cascade iteration has %d analysable paths, expected at least 2", npaths))
	}
	// entry: for the infiltration cascade the carried inflow is what was stored in Q1[0]
	_ = lv
}

func isInnerLoopIdx(q Poly) bool {
	inner := false
	q.walkAtoms(func(a *Atom) {
		if a.Kind == "loop" {
			inner = true
		}
	})
	return inner
}

func overflowIdentity(p *Prog, r *Report, fi *FuncInfo, x *Exec, L *LoopCtx, wat string) bool {
	_, ends := forkBody(p, fi, L.Stmt)
	pos := p.Pos(L.Stmt.Pos())
	q1 := "GlobalVarsMain.Q1"
	any := false
	for pi, st := range ends {
		ws := storedCells(st, wat)
		qs := storedCells(st, q1)
		if len(ws) == 0 && len(qs) == 0 {
			continue
		}
		any = true
		label := fmt.Sprintf("overflow:path%d", pi)
		sum := PZero()
		var down Poly
		var i Poly
		okShape := len(ws) == 2 && len(qs) == 1
		if okShape {
			for _, cv := range ws {
				d := cv.val.Sub(cellP(wat, cv.idx...))
				sum = sum.Add(d)
			}
			// identify upper (i) and lower (i+1)
			a, b := ws[0], ws[1]
			if b.idx[1].Sub(a.idx[1]).Equal(PInt(1)) {
				i, down = a.idx[1], b.val.Sub(cellP(wat, b.idx...))
			} else if a.idx[1].Sub(b.idx[1]).Equal(PInt(1)) {
				i, down = b.idx[1], a.val.Sub(cellP(wat, a.idx...))
			} else {
				okShape = false
			}
		}
		if !okShape {
			r.Ob(label, pos, false, fmt.Sprintf("overflow path stores %d storage cells and %d flux cells; expected layer i, layer i+1 and Q1[i+1]", len(ws), len(qs)))
			continue
		}
		dq := qs[0].val.Sub(cellP(q1, qs[0].idx...))
		ok := sum.IsZero() && qs[0].idx[0].Equal(i.Add(PInt(1))) && dq.Equal(down)
		r.Ob(label, pos, ok, fmt.Sprintf("Δ%s[1][%s]+Δ%s[1][%s+1] = %s (must be 0); ΔQ1[%s] = %s must equal what layer %s+1 received = %s", wat, i, wat, i, sum, qs[0].idx[0], dq, i, down))
	}
	return any
}

func capillaryMirror(p *Prog, r *Report, x *Exec, wat string) {
	// the store that adds a CAPS term to the storage array, and the loop that
	// subtracts the same term from Q1 for all interfaces below
	var add *Event
	for _, e := range x.Events {
		if e.Kind == "assign" && e.Root == wat && e.Val.Sub(e.Old).MentionsRoot("GlobalVarsMain.CAPS") {
			add = e
		}
	}
	if add == nil {
		r.Expect("capillary-rise", false, "increment of "+wat+"[1][caplay] by the tabulated capillary rise")
		return
	}
	T := add.Val.Sub(add.Old)
	var mirror *Event
	for _, e := range x.Events {
		if e.Kind == "assign" && e.Root == "GlobalVarsMain.Q1" && len(e.Loops) > 0 && e.Val.Sub(e.Old).MentionsRoot("GlobalVarsMain.CAPS") {
			mirror = e
		}
	}
	if mirror == nil {
		r.Ob("capillary-rise:mirror", p.Pos(add.Pos), false, fmt.Sprintf("capillary increment %s of %s is not mirrored in the interface-flux array Q1", T, add.Target()))
		return
	}
	L := mirror.Loops[len(mirror.Loops)-1]
	d := mirror.Val.Sub(mirror.Old)
	lo, hi, unit, why := loopBounds(x, L)
	ok := d.Add(T).IsZero() && why == "" && unit
	detail := fmt.Sprintf("storage gains %s at layer index %s; Q1[%s] changes by %s", T, add.Idx[1], mirror.Idx[0], d)
	if why == "" {
		// interfaces caplay .. N : lo-1 must be the layer index that gained
		okLo := lo.Sub(PInt(1)).Equal(add.Idx[1])
		okHi := hi.Equal(cellP("GlobalVarsMain.N"))
		okIdx := mirror.Idx[0].Equal(PAtom(L.Var))
		ok = ok && okLo && okHi && okIdx
		detail += fmt.Sprintf(" for interfaces %s..%s (must be layer+1 .. N)", lo, hi)
	} else {
		detail += "; " + why
	}
	r.Ob("capillary-rise:mirror", p.Pos(mirror.Pos), ok, detail)
}

func uptakeAndFinal(p *Prog, r *Report, x *Exec, wat string) {
	n := 0
	for _, e := range x.Events {
		if e.Kind != "assign" {
			continue
		}
		if e.Root == wat && len(e.Idx) == 2 && e.Idx[0].Equal(PInt(0)) {
			// WATER[0][i] ≡ WG[0][i]·DZ − TP[i]·wdt, where WG[0][i] may have just been copied from WG[1][i]
			i := e.Idx[1]
			dz := cellP("GlobalVarsMain.DZ.Index")
			// accept any version of the atoms: compare shape by substituting versions away
			got := stripVersions(e.Val)
			want1 := cellP("GlobalVarsMain.WG", PInt(0), i).Mul(dz).Sub(cellP("GlobalVarsMain.TP", i).Mul(pVar("wdt")))
			want2 := cellP("GlobalVarsMain.WG", PInt(1), i).Mul(dz).Sub(cellP("GlobalVarsMain.TP", i).Mul(pVar("wdt")))
			ok := got.Equal(stripVersions(want1)) || got.Equal(stripVersions(want2))
			n++
			r.Ob("uptake", p.Pos(e.Pos), ok, fmt.Sprintf("%s = %s (must be water content·DZ − uptake·wdt of the same layer)", e.Target(), got))
		}
		if e.Root == "GlobalVarsMain.WG" && len(e.Idx) == 2 && e.Idx[0].Equal(PInt(1)) && len(e.Loops) > 0 {
			i := e.Idx[1]
			dz := cellP("GlobalVarsMain.DZ.Index")
			want := cellP(wat, PInt(1), i).Div(dz)
			got := stripVersions(e.Val)
			n++
			r.Ob("final-conversion", p.Pos(e.Pos), got.Equal(stripVersions(want)), fmt.Sprintf("%s = %s (must be %s[1][%s]/DZ)", e.Target(), got, wat, i))
		}
	}
	if n < 3 {
		r.Ob("uptake/final", "-", false, fmt.Sprintf("found %d uptake/final-conversion stores, expected 3", n))
	}
}

// stripVersions maps every cell atom to its version-0 twin (shape comparison).
func stripVersions(q Poly) Poly {
	return q.Subst(func(a *Atom) (Poly, bool) {
		if a.Kind == "cell" && a.Ver != 0 {
			idx := make([]Poly, len(a.Idx))
			for i, ix := range a.Idx {
				idx[i] = stripVersions(ix)
			}
			return PAtom(cellAtom(a.Root, 0, idx)), true
		}
		return Poly{}, false
	})
}

// ---------------------------------------------------------------- R4

func c01R4(p *Prog, r *Report) {
	r.Rule("C01.R4", "reported water fluxes read the mirrored arrays: percolation/capillary counters accumulate Q1[OUTN]·c, the drain counter QDRAIN·c, with one unit factor c, and nothing else (a root-uptake amount booked as boundary supply would be counted twice: it already leaves the layer's storage)", 4)
	x := walked(p, "hermes.Water")
	if x == nil {
		return
	}
	type acc struct {
		e *Event
		d Poly
	}
	want := map[string]bool{"GlobalVarsMain.SICKER": true, "GlobalVarsMain.CAPSUM": true, "GlobalVarsMain.PERG": true, "GlobalVarsMain.DRAISUM": true}
	outn := cellP("GlobalVarsMain.OUTN")
	var factor *Poly
	seen := map[string]int{}
	for _, e := range x.Events {
		if e.Kind != "assign" || !want[e.Root] {
			continue
		}
		d := stripVersions(e.Val.Sub(e.Old))
		seen[e.Root]++
		ok := true
		var why []string
		for _, t := range d.sortedTerms() {
			var c Poly
			rest := PZero()
			rest.T[t.monoKey()] = t
			switch {
			case len(t.M) == 1 && t.M[0].A.Kind == "cell" && t.M[0].A.Root == "GlobalVarsMain.Q1" && t.M[0].E == 1:
				if !t.M[0].A.Idx[0].Equal(outn) {
					ok = false
					why = append(why, "flux read at Q1["+t.M[0].A.Idx[0].String()+"] instead of Q1[OUTN]")
				}
				c = PRat(t.C)
			case len(t.M) == 1 && t.M[0].A.Key == "GlobalVarsMain.QDRAIN" && e.Root == "GlobalVarsMain.DRAISUM":
				c = PRat(t.C)
			case termMentionsUptake(t):
				// root uptake is taken out of the layer's storage and is part of the uptake sum: booked as supply
				// through the lower boundary as well it is counted twice (finding C01-groundwater-layer-uptake-booked-twice)
				ok = false
				why = append(why, "root uptake ("+termStr(t)+") booked as a lower-boundary flux although it already leaves the layer's storage as uptake: counted twice")
				continue
			default:
				ok = false
				why = append(why, "unexpected term "+termStr(t))
				continue
			}
			if factor == nil {
				factor = &c
			} else if !factor.Equal(c) {
				ok = false
				why = append(why, fmt.Sprintf("unit factor %s differs from %s used by the sibling counters", c, *factor))
			}
		}
		r.Ob("counter:"+shortRoot(e.Root), p.Pos(e.Pos), ok, fmt.Sprintf("Δ%s = %s %s", shortRoot(e.Root), d, strings.Join(why, "; ")))
	}
	for k := range want {
		if seen[k] == 0 {
			r.Ob("counter:"+shortRoot(k), "-", false, "no accumulation of "+k+" found in Water")
		}
	}
	// the scalar drain flux lives in the long-lived state: every read in the kernel must be preceded, on every
	// path of the same call, by its (re)definition — otherwise a dry sub-step books the previous drainage again
	n, stale, ok := staleReads(p, "hermes.Water", "GlobalVarsMain", "QDRAIN")
	if !ok || n == 0 {
		r.Ob("fresh:QDRAIN", "-", false, "no read of the drain flux found in the water kernel")
	} else if len(stale) == 0 {
		r.Ob("fresh:QDRAIN", "-", true, fmt.Sprintf("all %d reads of QDRAIN in Water are dominated by a store of the same call on every path", n))
	} else {
		for _, in := range stale {
			r.Ob("fresh:QDRAIN", instrPos(p, in), false, "QDRAIN is read here on a path of Water that has not assigned it in this call: the value left by an earlier (wet) call is booked into the drain counter again although no water leaves storage")
		}
	}
}

// an atom that carries root uptake: the per-layer uptake array or the scalar that the evapotranspiration routine
// fills from it for the groundwater layer
func termMentionsUptake(t *Term) bool {
	for _, f := range t.M {
		if f.A.Root == "GlobalVarsMain.TP" || strings.HasSuffix(f.A.Root, ".GWAUF") || strings.HasSuffix(f.A.Key, ".GWAUF") {
			return true
		}
	}
	return false
}

func termHas(t *Term, key string) bool {
	for _, f := range t.M {
		if f.A.Key == key && f.E == 1 {
			return true
		}
	}
	return false
}

// c01Handover: everything the evapotranspiration routine hands to the water
// kernel lives in long-lived state; each item must be (re)defined on every
// path of every day's call, otherwise a day without that process keeps using
// yesterday's value (phantom uptake or groundwater supply).
func dayHandover(p *Prog, r *Report, rule string) {
	r.Rule(rule, "daily hand-over from evapotranspiration to the water kernel: surface flux, actual evaporation, per-layer root uptake and per-layer evaporation are assigned on every path of the daily routine (scalars outside loops; arrays by a sweep over all layers whose arms cover every layer), so no value of an earlier day survives; the start-of-day water content of every layer is yesterday's end-of-day value on every day after the first", 8)
	x := walked(p, "hermes.Evatra")
	if x == nil {
		r.Ob("Evatra", "-", false, "hermes.Evatra not found")
		return
	}
	items := []struct {
		root  string
		array bool
	}{{"GlobalVarsMain.FLUSS0", false}, {"GlobalVarsMain.ETA", false}, {"GlobalVarsMain.TP", true}, {"WaterSharedVars.EV", true}}
	// the state itself: on every day but the first the start-of-day water content of every layer is yesterday's
	// end-of-day value (the water kernel reads WG[0] on the first sub-step)
	{
		N := cellP("GlobalVarsMain.N")
		t := sweepTarget{name: "start-of-day water content", root: "GlobalVarsMain.WG", prefix: []int64{0}, lo: PZero(), hi: N.Sub(PInt(1)), filler: func(idx Poly) Poly { return cellP("GlobalVarsMain.WG", PInt(1), idx) }}
		found := false
		for _, L := range loopsOf(x) {
			has := false
			for _, e := range x.Events {
				if innermost(e, L) && len(e.Loops) == 1 {
					if _, ok := matchTarget(e, t); ok {
						has = true
					}
				}
			}
			if !has || found {
				continue
			}
			found = true
			sweepDefines(p, r, x, L, t, "state-handover", true)
			// taken on every day after the first: the only guard is 'day > start day'
			var gs []string
			okG := false
			if L.Entry != nil {
				for _, g := range flattenGuards(L.Entry.guards) {
					if g.Loop {
						continue
					}
					gs = append(gs, g.Key())
					if g.Kind == "cmp" && g.P.MentionsRoot("GlobalVarsMain.BEGINN") && (g.Op == token.GTR || g.Op == token.LSS) {
						okG = true
					}
				}
			}
			r.Ob("state-handover:every-day", p.Pos(L.Stmt.Pos()), okG && len(gs) == 1, fmt.Sprintf("the hand-over runs on every day after the first (guards: %v)", gs))
		}
		if !found {
			r.Ob("state-handover:defined", "-", false, "no sweep hands yesterday's end-of-day water content over to the start of the day")
		}
	}
	for _, it := range items {
		ok, why, n := definedOnAllPaths(x, it.root, it.array)
		r.Ob("redefined:"+shortRoot(it.root), "-", ok, fmt.Sprintf("%s: %d defining store(s)/sweep(s); defined on every path: %v %s", shortRoot(it.root), n, ok, why))
	}
}
