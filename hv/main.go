package main

import (
	"fmt"
	"os"
	"sort"
	"strings"
)

type checker func(p *Prog, r *Report)

var checkers = map[string]checker{}

func register(id string, c checker) { checkers[id] = c }

func usage() {
	fmt.Fprintln(os.Stderr, "usage: hv check <Cxx> [--tier quick|thorough] | hv replay <path> | hv dump <funcKey> | hv list")
	os.Exit(2)
}

func main() {
	if len(os.Args) < 2 {
		usage()
	}
	switch os.Args[1] {
	case "list":
		var ids []string
		for id := range checkers {
			ids = append(ids, id)
		}
		sort.Strings(ids)
		fmt.Println(strings.Join(ids, " "))
	case "replay":
		if len(os.Args) < 3 {
			usage()
		}
		b, err := os.ReadFile(os.Args[2])
		if err != nil {
			fmt.Fprintln(os.Stderr, err)
			os.Exit(2)
		}
		fmt.Println(string(b))
	case "dump":
		if len(os.Args) < 3 {
			usage()
		}
		p, err := Load(quickPatterns, nil)
		if err != nil {
			fmt.Fprintln(os.Stderr, err)
			os.Exit(2)
		}
		dumpFunc(p, os.Args[2])
	case "check":
		if len(os.Args) < 3 {
			usage()
		}
		id := os.Args[2]
		tier := os.Getenv("VERIF_TIER")
		for i := 3; i < len(os.Args); i++ {
			if os.Args[i] == "--tier" && i+1 < len(os.Args) {
				tier = os.Args[i+1]
			}
		}
		if tier != "thorough" {
			tier = "quick"
		}
		os.Exit(runCheck(id, tier))
	case "domain":
		p, err := Load(quickPatterns, nil)
		if err != nil {
			fmt.Fprintln(os.Stderr, err)
			os.Exit(2)
		}
		if len(os.Args) > 2 && os.Args[2] == "scope" {
			domainScopeDebug(p)
			return
		}
		domainDebug(p, os.Args[2:])
	case "writers":
		p, err := Load(quickPatterns, nil)
		if err != nil {
			fmt.Fprintln(os.Stderr, err)
			os.Exit(2)
		}
		debugWriters(p, os.Args[2], os.Args[3])
	case "errsites":
		p, err := Load(quickPatterns, nil)
		if err != nil {
			fmt.Fprintln(os.Stderr, err)
			os.Exit(2)
		}
		debugErrSites(p)
	case "check-patch":
		// hv check-patch <Cxx> <patch.diff>: judge the tree with the patch applied in memory (nothing under /repo is written)
		if len(os.Args) < 4 {
			usage()
		}
		ov, err := overlayFromPatch(os.Args[3])
		if err != nil {
			fmt.Println("SKIPPED:", err)
			os.Exit(3)
		}
		keys, err := runOverlayChild(os.Args[2], ov)
		if err != nil {
			fmt.Println("ERROR:", err)
			os.Exit(2)
		}
		for _, k := range keys {
			fmt.Println("FIRES", k)
		}
		if len(keys) > 0 {
			os.Exit(1)
		}
		os.Exit(0)
	case "check-overlay":
		if len(os.Args) < 4 {
			usage()
		}
		os.Exit(runCheckOverlay(os.Args[2], os.Args[3]))
	case "mutsweep":
		os.Exit(runMutSweep(os.Args[2:]))
	case "selftest":
		os.Exit(runSelfTest(os.Args[2:]))
	default:
		usage()
	}
}

func runCheck(id, tier string) (code int) {
	c, ok := checkers[id]
	if !ok {
		fmt.Fprintln(os.Stderr, "unknown property", id)
		return 2
	}
	// both tiers analyse the four packages the properties are anchored in; the thorough tier adds the
	// checker self-validation (stubs.go).  The service/tool packages outside that set have their own
	// dispatchers and error conventions and were never part of the confirmed rule tables.
	pats := quickPatterns
	p, err := Load(pats, nil)
	if err != nil {
		fmt.Fprintln(os.Stderr, "INFRASTRUCTURE FAILURE:", err)
		// a tree that does not type-check cannot be judged
		return 2
	}
	r := NewReport(id, tier, p)
	defer func() {
		if e := recover(); e != nil {
			fmt.Fprintf(os.Stderr, "INFRASTRUCTURE FAILURE: analyser panic: %v\n", e)
			panic(e)
		}
	}()
	c(p, r)
	if tier == "thorough" {
		thoroughExtras(id, p, r)
	}
	return r.Finish()
}

func dumpFunc(p *Prog, key string) {
	fi := p.Funcs[key]
	if fi == nil {
		fmt.Println("no such function; candidates:")
		for k := range p.Funcs {
			if strings.Contains(strings.ToLower(k), strings.ToLower(key)) {
				fmt.Println("  ", k)
			}
		}
		return
	}
	x := NewExec(p, fi)
	body := fi.Decl.Body
	if len(os.Args) > 3 && os.Args[3] == "lit" {
		lits := findFuncLits(fi.Decl.Body)
		body = lits[0].Body
	}
	x.RunBody(body)
	for _, e := range x.Events {
		var gs []string
		for _, g := range flattenGuards(e.Guards) {
			gs = append(gs, g.Key())
		}
		lp := ""
		for _, l := range e.Loops {
			lp += fmt.Sprintf("L%d ", l.ID)
		}
		switch e.Kind {
		case "assign":
			fmt.Printf("%s  %s%s = %s\n      old=%s\n      if %s\n", p.Pos(e.Pos), lp, e.Target(), e.Val, e.Old, strings.Join(gs, " ; "))
		case "call":
			var as []string
			for _, a := range e.Args {
				as = append(as, a.String())
			}
			fmt.Printf("%s  %scall %s(%s)\n      if %s\n", p.Pos(e.Pos), lp, e.Name, strings.Join(as, ", "), strings.Join(gs, " ; "))
		case "abstract":
			fmt.Printf("%s  %sabstract %s = %s\n", p.Pos(e.Pos), lp, e.Name, e.Val)
		default:
			var rs []string
			for _, a := range e.Rets {
				rs = append(rs, a.String())
			}
			fmt.Printf("%s  %s%s %s\n      if %s\n", p.Pos(e.Pos), lp, e.Kind, strings.Join(rs, ", "), strings.Join(gs, " ; "))
		}
	}
	for _, u := range x.Unsup {
		fmt.Println("UNSUPPORTED:", u)
	}
}
