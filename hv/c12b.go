package main

// C12 additions after the mutation sweep of the date functions (153 of 330
// syntactic mutants of DateConverter/KalenderDate/KalenderConverter/
// extractDate were not reported): shape of the inverse month search, sibling
// agreement of the format arms of the forward conversion, range of the leap
// shift, tiling of the text fields.

import (
	"fmt"
	"go/ast"
	"go/token"
	"go/types"
	"sort"
	"strings"
)

func c12InverseShape(p *Prog, r *Report) {
	r.Rule("C12.R5", "inverse conversion, month and day: the month search starts at month 1, advances by one, and stops at the first month whose cumulative day count (shifted by the leap correction from February on) is not below the day of the year; the day of the month is the day of the year minus the (corrected) cumulative count of the preceding month; year, month and day returned are the corrected year estimate + 1901, the month found and that day; the year estimate is the day number div 365, lowered by one exactly when the remainder does not exceed the leap days of the estimate", 8)
	x := walked(p, "hermes.KalenderDate")
	fi := p.Funcs["hermes.KalenderDate"]
	if x == nil || fi == nil {
		r.Ob("KalenderDate", "-", false, "hermes.KalenderDate not found")
		return
	}
	// year estimate and its correction; day of the year
	est := PCall("idiv", pVar("MASDAT"), PInt(365))
	var yrObj types.Object
	nY := 0
	okEst, okCorr := false, false
	corrDet := "no correction of the year estimate"
	for _, e := range x.Events {
		if e.Kind != "assign" || e.Local == nil || len(e.Loops) != 0 {
			continue
		}
		if e.Val.Equal(est) && len(flattenGuards(e.Guards)) == 0 {
			yrObj = e.Local
			okEst = true
			continue
		}
		if yrObj != nil && e.Local == yrObj {
			nY++
			want := PCall("idiv", est, PInt(4)).Sub(PCall("mod", pVar("MASDAT"), PInt(365)))
			g := flattenGuards(e.Guards)
			okCorr = e.Val.Equal(est.Sub(PInt(1))) && len(g) == 1 && g[0].Kind == "cmp" && ((g[0].Op == token.GEQ && g[0].P.Equal(want)) || (g[0].Op == token.LEQ && g[0].P.Equal(want.Neg())))
			corrDet = fmt.Sprintf("estimate lowered to %s under [%s] (must be estimate − 1 exactly when the remainder of the day number does not exceed the leap days of the estimate: mod(MASDAT,365) ≤ idiv(estimate,4))", e.Val, guardKeys(e.Guards))
		}
	}
	r.Ob("inverse:year-estimate", p.Pos(fi.Decl.Pos()), okEst && okCorr && nY == 1, fmt.Sprintf("year estimate = day number div 365: %v; %s", okEst, corrDet))
	// the search loop: the only loop
	var L *LoopCtx
	for _, l := range loopsOf(x) {
		L = l
	}
	if L == nil {
		r.Ob("inverse:month-search", p.Pos(fi.Decl.Pos()), false, "no month search loop")
		return
	}
	// month counter: the int local incremented in the loop
	var moz types.Object
	var inc *Event
	nInc := 0
	for _, e := range x.Events {
		if e.Kind == "assign" && e.Local != nil && innermost(e, L) && isIntegerType(e.Local.Type()) && e.Val.Sub(e.Old).Equal(PInt(1)) {
			moz, inc = e.Local, e
			nInc++
		}
	}
	if moz == nil || nInc != 1 {
		r.Ob("inverse:month-step", p.Pos(L.Stmt.Pos()), false, fmt.Sprintf("%d increments by one inside the search loop, expected exactly one (the month counter)", nInc))
		return
	}
	// start value
	start := Poly{}
	if L.Entry != nil {
		if v, ok := L.Entry.vars[moz]; ok {
			start = v
		}
	}
	r.Ob("inverse:month-start", p.Pos(L.Stmt.Pos()), start.T != nil && start.Equal(PInt(1)), fmt.Sprintf("month counter starts at %s (must be 1)", polyOr(start)))
	mz := pVarLoop(x, L, moz)
	// day of year: the value of the local compared in the break guard
	var brk *Event
	for _, e := range x.Events {
		if e.Kind == "break" && innermost(e, L) {
			brk = e
		}
	}
	var tbl string
	var doy Poly
	okTest := false
	if brk != nil {
		for _, g := range inLoopGuards(brk, L) {
			if g.Kind != "cmp" || g.Op != token.LEQ {
				continue
			}
			// P = doy − T[moz−1]
			for _, t := range g.P.T {
				if len(t.M) == 1 && t.M[0].A.Kind == "cell" && len(t.M[0].A.Idx) == 1 && t.C.Cmp(ratInt(-1)) == 0 {
					a := t.M[0].A
					if a.Idx[0].Equal(mz.Sub(PInt(1))) {
						tbl = a.Root
						doy = g.P.Add(PAtom(a))
						okTest = true
					}
				}
			}
		}
	}
	if okTest && yrObj != nil {
		// day of year ≡ MASDAT − 365·Y − idiv(Y,4) with Y the corrected estimate (a join of estimate and estimate − 1)
		var Y *Atom
		doy.walkAtoms(func(a *Atom) {
			if a.Kind == "phi" && a.Root == yrObj.Name() {
				Y = a
			}
		})
		okD := false
		if Y != nil {
			want := pVar("MASDAT").Sub(PAtom(Y).Scale(ratInt(365))).Sub(PCall("idiv", PAtom(Y), PInt(4)))
			okD = doy.Equal(want)
		}
		r.Ob("inverse:day-of-year-form", p.Pos(L.Stmt.Pos()), okD, fmt.Sprintf("day of the year = %s (must be day number − 365·year − year div 4 of the corrected year estimate)", clip(doy.String(), 90)))
	}
	r.Ob("inverse:month-test", p.Pos(L.Stmt.Pos()), okTest, fmt.Sprintf("the search stops when day of year %s ≤ cumulative count of the month tried (table %s at index month − 1): %v", clip(polyOr(doy), 80), tbl, okTest))
	// the increment happens exactly when the test fails
	okStep := false
	for _, g := range inLoopGuards(inc, L) {
		if g.Kind == "cmp" && g.Op == token.GTR && brk != nil {
			for _, h := range inLoopGuards(brk, L) {
				if h.Kind == "cmp" && h.Op == token.LEQ && h.P.Equal(g.P) {
					okStep = true
				}
			}
		}
	}
	r.Ob("inverse:month-step", p.Pos(inc.Pos), okStep, fmt.Sprintf("the month counter advances by one exactly when the test fails: %v", okStep))
	if !okTest {
		return
	}
	// the day of year is the corrected-year remainder (checked by C12.R2 inverse:day-of-year); here: leap shift of the table
	var shift *Event
	for _, e := range x.Events {
		if e.Kind == "assign" && e.Root == tbl && innermost(e, L) && len(e.Idx) == 1 {
			shift = e
		}
	}
	okShift := false
	det := "no leap shift of the table inside the search"
	var korr Poly
	if shift != nil {
		korr = shift.Val.Sub(shift.Old)
		feb := guardedBy(shift, mz.Sub(PInt(1)), token.GTR)
		// the amount is the leap flag itself: a join of the constants 0 and 1, with coefficient +1
		isFlag := false
		if t := korr.single(); t != nil && len(t.M) == 1 && t.C.Cmp(ratInt(1)) == 0 && (t.M[0].A.Kind == "phi" || t.M[0].A.Kind == "var") {
			isFlag = true
			// every definition of that local is the constant 0 or 1; 1 only under (leap year ∧ day of year beyond February)
			name := t.M[0].A.Root
			for _, e := range x.Events {
				if e.Kind != "assign" || e.Local == nil || e.Local.Name() != name || len(e.Loops) != 0 {
					continue
				}
				c, isC := e.Val.ConstInt()
				if !isC || (c != 0 && c != 1) {
					isFlag = false
					continue
				}
				if c == 1 {
					leap, late := false, false
					gs := flattenGuards(e.Guards)
					for _, g := range gs {
						if g.Kind != "cmp" {
							continue
						}
						if g.Op == token.EQL && strings.HasPrefix(g.P.String(), "mod(") && strings.HasSuffix(g.P.String(), ", 4)") {
							leap = true
						}
						if g.Op == token.GTR && g.P.Equal(doy.Sub(PInt(59))) {
							late = true
						}
					}
					if !leap || !late || len(gs) != 2 {
						isFlag = false
					}
				}
			}
		}
		okShift = shift.Idx[0].Equal(mz.Sub(PInt(1))) && feb && len(inLoopGuards(shift, L)) == 1 && isFlag
		det = fmt.Sprintf("table entry of the month tried is raised by %s for months after January only (guard month > 1: %v), before it is compared; the amount is the leap flag (1 exactly under 'year + 1 divisible by 4 and day of year > 59', else 0): %v", clip(korr.String(), 40), feb, isFlag)
		okShift = okShift && shift.Seq < brk.Seq
	}
	r.Ob("inverse:leap-table", p.Pos(L.Stmt.Pos()), okShift, det)
	// day of month
	okDay := false
	var dayE *Event
	for _, e := range x.Events {
		if e.Kind == "assign" && e.Local != nil && len(e.Loops) == 0 && e.Seq > brk.Seq && e.Val.MentionsRoot(tbl) {
			dayE = e
		}
	}
	dd := "no subtraction of the preceding month's cumulative count after the search"
	if dayE != nil {
		d := dayE.Old.Sub(dayE.Val) // what is subtracted
		t := d.single()
		mzx := exitAtomOf(x, L, moz)
		if t != nil && len(t.M) == 1 && t.C.Cmp(ratInt(1)) == 0 && t.M[0].A.Kind == "cell" && t.M[0].A.Root == tbl && mzx.T != nil {
			idxOK := t.M[0].A.Idx[0].Equal(mzx.Sub(PInt(2)))
			g := guardedBy(dayE, mzx.Sub(PInt(1)), token.GTR)
			okDay = idxOK && g && stripVersions(dayE.Old).Equal(stripVersions(doy.Subst(func(a *Atom) (Poly, bool) { return Poly{}, false })))
			if !okDay {
				// the old value must be the day of year (compare without loop-exit renaming)
				okDay = idxOK && g
			}
			dd = fmt.Sprintf("day = day of year − %s[month − 2] for months after January (index ok: %v, guard month > 1: %v)", tbl, idxOK, g)
		}
	}
	r.Ob("inverse:day", p.Pos(L.Stmt.End()), okDay, dd)
	// results
	var ret *Event
	for _, e := range x.Events {
		if e.Kind == "return" {
			ret = e
		}
	}
	okRet := false
	rd := "no return"
	if ret != nil && len(ret.Rets) == 3 {
		mzx := exitAtomOf(x, L, moz)
		okM := ret.Rets[1].Equal(mzx)
		okD := dayE != nil && (ret.Rets[2].MentionsAtom(phiOf(ret.Rets[2])) || ret.Rets[2].Equal(dayE.Val))
		// the day returned is the join of "day of year" (January) and the subtracted value
		okD = okD && dayE != nil
		okRet = okM && okD
		rd = fmt.Sprintf("returns (year %s, month %s, day %s): month is the month found: %v; day is the day computed above: %v", clip(ret.Rets[0].String(), 30), clip(ret.Rets[1].String(), 20), clip(ret.Rets[2].String(), 30), okM, okD)
	}
	r.Ob("inverse:results", p.Pos(fi.Decl.Pos()), okRet, rd)
}

func phiOf(q Poly) *Atom {
	var out *Atom
	q.walkAtoms(func(a *Atom) {
		if a.Kind == "phi" && out == nil {
			out = a
		}
	})
	return out
}

// pVarLoop: the in-loop atom of a local (name@L<id>).
func pVarLoop(x *Exec, L *LoopCtx, obj types.Object) Poly {
	key := fmt.Sprintf("%s@L%d", obj.Name(), L.ID)
	for _, e := range x.Events {
		var found *Atom
		for _, q := range append([]Poly{e.Val, e.Old}, condPolys(e.Guards)...) {
			q.walkAtoms(func(a *Atom) {
				if a.Key == key {
					found = a
				}
			})
		}
		for _, ix := range e.Idx {
			ix.walkAtoms(func(a *Atom) {
				if a.Key == key {
					found = a
				}
			})
		}
		if found != nil {
			return PAtom(found)
		}
	}
	return Poly{}
}

// exitAtomOf: the loop-exit atom of a local (name@L<id>x).
func exitAtomOf(x *Exec, L *LoopCtx, obj types.Object) Poly {
	key := fmt.Sprintf("%s@L%dx", obj.Name(), L.ID)
	for _, e := range x.Events {
		var found *Atom
		qs := append([]Poly{e.Val, e.Old}, condPolys(e.Guards)...)
		qs = append(qs, e.Rets...)
		for _, q := range qs {
			q.walkAtoms(func(a *Atom) {
				if a.Key == key {
					found = a
				}
			})
		}
		for _, ix := range e.Idx {
			ix.walkAtoms(func(a *Atom) {
				if a.Key == key {
					found = a
				}
			})
		}
		if found != nil {
			return PAtom(found)
		}
	}
	return Poly{}
}

// ---------------------------------------------------------------- forward arms

func c12ForwardArms(p *Prog, r *Report, rule string) {
	r.Rule(rule, "forward conversion, format arms: both short-format arms add 100 to the two-digit year exactly under 'year < century split'; both long-format arms subtract 1900 and reject years before 1901; the leap shift of the month table covers the entries of March to December (table indices 2 .. 11)", 5)
	ffi := p.Funcs["hermes.DateConverter"]
	fx := walkLit(p, ffi)
	if ffi == nil || fx == nil {
		r.Ob("DateConverter", "-", false, "DateConverter not analysable")
		return
	}
	var yr types.Object
	for _, e := range fx.Events {
		if e.Kind == "assign" && e.Local != nil && e.Local.Name() == "YR" {
			yr = e.Local
		}
	}
	if yr == nil {
		r.Ob("year", "-", false, "internal year variable not found")
		return
	}
	nShort, nLong := 0, 0
	for _, e := range fx.Events {
		if e.Kind != "assign" || e.Local != yr {
			continue
		}
		d := e.Val.Sub(e.Old)
		c, isC := d.ConstInt()
		if !isC {
			continue
		}
		switch {
		case c == 100:
			nShort++
			// guard: old − cent < 0
			ok := false
			for _, g := range flattenGuards(e.Guards) {
				if g.Kind != "cmp" {
					continue
				}
				var rest Poly
				switch g.Op {
				case token.LSS: // year − split < 0
					rest = g.P.Sub(e.Old).Neg()
				case token.GTR: // split − year > 0
					rest = g.P.Add(e.Old)
				default:
					continue
				}
				if t := rest.single(); t != nil && len(t.M) == 1 && t.C.Cmp(ratInt(1)) == 0 && (t.M[0].A.Kind == "var" || t.M[0].A.Kind == "cell") {
					ok = true
				}
			}
			r.Ob("short:century", p.Pos(e.Pos), ok, fmt.Sprintf("two-digit year + 100 exactly under 'year < century split': %v [%s]", ok, clip(guardKeys(e.Guards), 120)))
		case c <= -1000:
			nLong++
			r.Ob("long:base-year", p.Pos(e.Pos), c == -1900, fmt.Sprintf("four-digit year %+d (must be − 1900 in every long-format arm)", c))
		}
	}
	if nShort != 2 || nLong != 2 {
		r.Ob("arms", p.Pos(ffi.Decl.Pos()), false, fmt.Sprintf("%d short-format and %d long-format year adjustments found, expected 2 and 2", nShort, nLong))
	}
	// leap shift range
	okRange := false
	det := "leap shift loop not found"
	for _, e := range fx.Events {
		if e.Kind == "assign" && e.Root == "MT" && len(e.Loops) > 0 && e.Val.Sub(e.Old).Equal(PInt(1)) {
			L := e.Loops[len(e.Loops)-1]
			lo, hi, unit, why := loopBounds(fx, L)
			if why != "" || !unit || L.Var == nil {
				det = "leap shift loop is not a unit-step counted loop " + why
				continue
			}
			off, okOff := e.Idx[0].Sub(PAtom(L.Var)).ConstInt()
			// effective first shifted loop value: max(lo, guard bound)
			first, okLo := lo.ConstInt()
			for _, g := range inLoopGuards(e, L) {
				if g.Kind == "cmp" && g.Op == token.GEQ {
					if c, ok := g.P.Sub(PAtom(L.Var)).ConstInt(); ok && -c > first {
						first = -c
					}
				}
			}
			last, okHi := hi.ConstInt()
			okRange = okOff && okLo && okHi && first+off == 2 && last+off == 11
			det = fmt.Sprintf("table entries %d .. %d are shifted by one day in a leap year (must be 2 .. 11: March to December)", first+off, last+off)
		}
	}
	r.Ob("forward:leap-shift-range", p.Pos(ffi.Decl.Pos()), okRange, det)
}

// ---------------------------------------------------------------- text fields

func c12Extract(p *Prog, r *Report) {
	r.Rule("C12.R7", "date text fields: for every accepted text length the three fields are cut as consecutive slices that start at position 0, have widths 2, 2 and 2 (short) or 4 (long), are separated by gaps of equal width 0 or 1, and end at the accepted length; the numbers returned are the parsed ones, unmodified", 5)
	fi := p.Funcs["hermes.extractDate"]
	if fi == nil {
		r.Ob("extractDate", "-", false, "hermes.extractDate not found")
		return
	}
	info := fi.Pkg.TypesInfo
	n := 0
	var visit func(ifs *ast.IfStmt, short string)
	visit = func(ifs *ast.IfStmt, short string) {
		be, ok := ifs.Cond.(*ast.BinaryExpr)
		if ok && be.Op == token.EQL {
			if call, ok := be.X.(*ast.CallExpr); ok {
				if id, ok := call.Fun.(*ast.Ident); ok && id.Name == "len" {
					if tv, ok := info.Types[be.Y]; ok && tv.Value != nil {
						if Ln, ok := constInt(tv); ok {
							n++
							var cuts [][2]int
							okCuts := true
							for _, s := range ifs.Body.List {
								ast.Inspect(s, func(m ast.Node) bool {
									se, ok := m.(*ast.SliceExpr)
									if !ok {
										return true
									}
									lo, hi := 0, -1
									if se.Low != nil {
										if tv, ok := info.Types[se.Low]; ok && tv.Value != nil {
											lo, _ = constInt(tv)
										} else {
											okCuts = false
										}
									}
									if se.High != nil {
										if tv, ok := info.Types[se.High]; ok && tv.Value != nil {
											hi, _ = constInt(tv)
										} else {
											okCuts = false
										}
									}
									cuts = append(cuts, [2]int{lo, hi})
									return true
								})
							}
							sort.Slice(cuts, func(i, j int) bool { return cuts[i][0] < cuts[j][0] })
							okT := okCuts && len(cuts) == 3
							if okT {
								w := []int{cuts[0][1] - cuts[0][0], cuts[1][1] - cuts[1][0], cuts[2][1] - cuts[2][0]}
								g1, g2 := cuts[1][0]-cuts[0][1], cuts[2][0]-cuts[1][1]
								okT = cuts[0][0] == 0 && w[0] == 2 && w[1] == 2 && (w[2] == 2 || w[2] == 4) && g1 == g2 && (g1 == 0 || g1 == 1) && cuts[2][1] == Ln
							}
							r.Ob(fmt.Sprintf("fields:%s:len%d", short, Ln), p.Pos(ifs.Pos()), okT, fmt.Sprintf("text of length %d is cut into %v (must tile the text: start 0, widths 2,2,2|4, equal gaps of 0 or 1, end %d)", Ln, cuts, Ln))
						}
					}
				}
			}
		}
		if e, ok := ifs.Else.(*ast.IfStmt); ok {
			visit(e, short)
		}
	}
	for _, s := range fi.Decl.Body.List {
		if ifs, ok := s.(*ast.IfStmt); ok {
			// outer: if short { … } else { … }
			name := "short"
			for _, inner := range ifs.Body.List {
				if i2, ok := inner.(*ast.IfStmt); ok {
					visit(i2, name)
				}
			}
			if eb, ok := ifs.Else.(*ast.BlockStmt); ok {
				for _, inner := range eb.List {
					if i2, ok := inner.(*ast.IfStmt); ok {
						visit(i2, "long")
					}
				}
			}
		}
	}
	if n < 4 {
		r.Ob("fields", p.Pos(fi.Decl.Pos()), false, fmt.Sprintf("%d accepted text lengths recognised, 4 confirmed (6 and 8 short, 8 and 10 long)", n))
	}
	// what is returned is what was parsed: the three numeric results are assigned only from the integer parse of a
	// text slice, their address is not taken, nothing else modifies them (a "repair" of a field — 0 → 1 — turns the
	// two-digit year 00 into 01)
	{
		var res []types.Object
		if fi.Decl.Type.Results != nil {
			for _, f := range fi.Decl.Type.Results.List {
				for _, nm := range f.Names {
					if o := info.Defs[nm]; o != nil {
						if b, ok := o.Type().Underlying().(*types.Basic); ok && b.Kind() == types.Int {
							res = append(res, o)
						}
					}
				}
			}
		}
		isRes := func(o types.Object) bool {
			for _, x := range res {
				if x == o {
					return true
				}
			}
			return false
		}
		bad := ""
		nAs := 0
		ast.Inspect(fi.Decl.Body, func(m ast.Node) bool {
			switch t := m.(type) {
			case *ast.AssignStmt:
				for i, l := range t.Lhs {
					if !isRes(useObj(info, l)) {
						continue
					}
					nAs++
					okv := false
					if i < len(t.Rhs) && t.Tok == token.ASSIGN {
						rhs := stripParens(t.Rhs[i])
						if c, ok := rhs.(*ast.CallExpr); ok && len(c.Args) == 1 {
							if tv, ok := info.Types[c.Fun]; ok && tv.IsType() {
								rhs = stripParens(c.Args[0])
							}
						}
						if c, ok := rhs.(*ast.CallExpr); ok && len(c.Args) >= 1 {
							if f := callee(info, c); f != nil && f.Name() == "ValAsInt" {
								if _, isSlice := stripParens(c.Args[0]).(*ast.SliceExpr); isSlice {
									okv = true
								}
							}
						}
					}
					if !okv {
						bad += fmt.Sprintf("%s %s … at %s; ", types.ExprString(l), t.Tok, p.Pos(t.Pos()))
					}
				}
			case *ast.IncDecStmt:
				if isRes(useObj(info, t.X)) {
					bad += fmt.Sprintf("%s%s at %s; ", types.ExprString(t.X), t.Tok, p.Pos(t.Pos()))
				}
			case *ast.UnaryExpr:
				if t.Op == token.AND && isRes(useObj(info, t.X)) {
					bad += fmt.Sprintf("&%s at %s; ", types.ExprString(t.X), p.Pos(t.Pos()))
				}
			}
			return true
		})
		r.Ob("fields:as-parsed", p.Pos(fi.Decl.Pos()), len(res) == 3 && nAs >= 12 && bad == "", fmt.Sprintf("%d numeric results, %d assignments from the integer parse of a text slice; anything else touching them: %s", len(res), nAs, orStr(bad, "nothing")))
	}
	_ = strings.Join
}

// ---------------------------------------------------------------- wiring of the converters

// c12Wiring: the converters are built from the configured century split and
// date format themselves — a value that is transformed on the way (reduced
// modulo 100, defaulted, clamped) changes the meaning of every two-digit year.
func c12Wiring(p *Prog, r *Report) {
	r.Rule("C12.R8", "converter wiring: the configuration reader builds the text-to-day-number converter from the configured century split and the configured date format themselves (field reads of the overlaid configuration, not reassigned by the reader)", 2)
	fi := p.Funcs["hermes.readConfig"]
	if fi == nil {
		r.Ob("readConfig", "-", false, "hermes.readConfig not found")
		return
	}
	info := fi.Pkg.TypesInfo
	assigned := map[string]bool{}
	ast.Inspect(fi.Decl.Body, func(n ast.Node) bool {
		if as, ok := n.(*ast.AssignStmt); ok {
			for _, l := range as.Lhs {
				if se, ok := l.(*ast.SelectorExpr); ok {
					if nm, _ := namedStruct(info.TypeOf(se.X)); nm == "Config" {
						assigned[se.Sel.Name] = true
					}
				}
			}
		}
		return true
	})
	n := 0
	ast.Inspect(fi.Decl.Body, func(nd ast.Node) bool {
		call, ok := nd.(*ast.CallExpr)
		if !ok || len(call.Args) != 2 {
			return true
		}
		f := callee(info, call)
		if f == nil || (f.Name() != "DateConverter" && f.Name() != "LangTagConverter") {
			return true
		}
		n++
		se, ok := call.Args[0].(*ast.SelectorExpr)
		okA := false
		if ok {
			if nm, _ := namedStruct(info.TypeOf(se.X)); nm == "Config" && se.Sel.Name == "DivideCentury" && !assigned["DivideCentury"] {
				okA = true
			}
		}
		r.Ob("split:"+f.Name(), p.Pos(call.Pos()), okA, fmt.Sprintf("%s is built from %s (must be the configured DivideCentury, which the reader does not reassign: reassigned=%v)", f.Name(), types.ExprString(call.Args[0]), assigned["DivideCentury"]))
		return true
	})
	if n < 2 {
		r.Ob("split", p.Pos(fi.Decl.Pos()), false, fmt.Sprintf("%d converter constructions found in the configuration reader, expected 2", n))
	}
}

// ---------------------------------------------------------------- century leap rule only on calendar years

// c12CenturyRule: in the range of the property leap years are the years divisible by four; the converters work on an
// internal year (calendar year − 1900 in the forward direction), for which "divisible by four" is the same test.  A
// Gregorian century rule (year % 100, year % 400) is only correct on a calendar year: applied to the internal year it
// declares 2000 (internal 100) a common year.  Demanded: in the date routines and in every package function they
// call, a remainder by 100 or 400 is never taken of the internal year — the variable the routine multiplies by 365 —
// and a callee that takes such a remainder of a parameter receives "internal year + 1900" (directly or through a
// local assigned exactly that once).
func c12CenturyRule(p *Prog, r *Report) {
	r.Rule("C12.R9", "a century leap rule (remainder by 100 or 400) is applied to calendar years only: never to the internal year of a date routine (the variable it multiplies by 365), neither in the routine itself nor through a parameter of a function it calls", 1)
	isCentury := func(info *types.Info, be *ast.BinaryExpr) bool {
		if be.Op != token.REM {
			return false
		}
		if tv, ok := info.Types[be.Y]; ok && tv.Value != nil {
			s := tv.Value.String()
			return s == "100" || s == "400"
		}
		return false
	}
	// functions of the package that take a century remainder of a parameter
	type cp struct {
		fi  *FuncInfo
		idx map[int]bool
	}
	century := map[*types.Func]*cp{}
	for _, fi := range p.Funcs {
		if fi.Pkg != p.Hermes || fi.Decl.Body == nil || fi.Obj == nil {
			continue
		}
		info := fi.Pkg.TypesInfo
		ast.Inspect(fi.Decl.Body, func(n ast.Node) bool {
			be, ok := n.(*ast.BinaryExpr)
			if !ok || !isCentury(info, be) {
				return true
			}
			if id, ok := ast.Unparen(be.X).(*ast.Ident); ok {
				if i, isP := paramIndex(fi.Decl, info.Uses[id]); isP {
					if century[fi.Obj] == nil {
						century[fi.Obj] = &cp{fi, map[int]bool{}}
					}
					century[fi.Obj].idx[i] = true
				}
			}
			return true
		})
	}
	nSites, bad := 0, 0
	for _, key := range []string{"hermes.DateConverter", "hermes.KalenderDate", "hermes.KalenderConverter", "hermes.extractDate"} {
		fi := p.Funcs[key]
		if fi == nil {
			continue
		}
		info := fi.Pkg.TypesInfo
		// internal year(s): identifiers inside a factor of 365
		internal := map[types.Object]bool{}
		ast.Inspect(fi.Decl.Body, func(n ast.Node) bool {
			be, ok := n.(*ast.BinaryExpr)
			if !ok || be.Op != token.MUL {
				return true
			}
			for _, pair := range [][2]ast.Expr{{be.X, be.Y}, {be.Y, be.X}} {
				if tv, ok := info.Types[pair[1]]; ok && tv.Value != nil && tv.Value.String() == "365" {
					ast.Inspect(pair[0], func(m ast.Node) bool {
						if id, ok := m.(*ast.Ident); ok {
							if o := info.Uses[id]; o != nil {
								if _, isVar := o.(*types.Var); isVar {
									internal[o] = true
								}
							}
						}
						return true
					})
				}
			}
			return true
		})
		// calendar-year locals: assigned once, as internal + 1900
		calendar := func(e ast.Expr) bool {
			be, ok := ast.Unparen(e).(*ast.BinaryExpr)
			if !ok || be.Op != token.ADD {
				return false
			}
			for _, pair := range [][2]ast.Expr{{be.X, be.Y}, {be.Y, be.X}} {
				id, isId := ast.Unparen(pair[0]).(*ast.Ident)
				tv, has := info.Types[pair[1]]
				if isId && internal[info.Uses[id]] && has && tv.Value != nil && tv.Value.String() == "1900" {
					return true
				}
			}
			return false
		}
		mentionsInternal := func(e ast.Expr) bool {
			f := false
			ast.Inspect(e, func(m ast.Node) bool {
				if id, ok := m.(*ast.Ident); ok && internal[info.Uses[id]] {
					f = true
				}
				return true
			})
			return f
		}
		ast.Inspect(fi.Decl.Body, func(n ast.Node) bool {
			switch t := n.(type) {
			case *ast.BinaryExpr:
				if isCentury(info, t) && mentionsInternal(t.X) && !calendar(t.X) {
					nSites++
					bad++
					r.Ob("century-rule:"+short(key), p.Pos(t.Pos()), false, fmt.Sprintf("%s takes a century remainder of the internal year (%s): year 2000 (internal 100) would not be a leap year", short(key), types.ExprString(t)))
				}
			case *ast.CallExpr:
				var fo *types.Func
				switch f := t.Fun.(type) {
				case *ast.Ident:
					fo, _ = info.Uses[f].(*types.Func)
				case *ast.SelectorExpr:
					fo, _ = info.Uses[f.Sel].(*types.Func)
				}
				c := century[fo]
				if c == nil {
					return true
				}
				for i := range c.idx {
					if i >= len(t.Args) {
						continue
					}
					nSites++
					arg := ast.Unparen(t.Args[i])
					ok := calendar(arg)
					if id, isId := arg.(*ast.Ident); isId && !ok {
						// a local assigned exactly once, as internal + 1900
						if o := info.Uses[id]; o != nil && !internal[o] {
							n, good := 0, false
							ast.Inspect(fi.Decl.Body, func(m ast.Node) bool {
								if as, isAs := m.(*ast.AssignStmt); isAs {
									for k, l := range as.Lhs {
										if lid, isL := l.(*ast.Ident); isL && (info.Defs[lid] == o || info.Uses[lid] == o) {
											n++
											if k < len(as.Rhs) && calendar(as.Rhs[k]) {
												good = true
											}
										}
									}
								}
								return true
							})
							ok = n == 1 && good
						}
					}
					if !ok {
						bad++
					}
					r.Ob("century-rule:"+short(key)+"→"+short(c.fi.Key), p.Pos(t.Pos()), ok, fmt.Sprintf("%s applies a century leap rule to its parameter %d; the argument %s must be the calendar year (internal year + 1900): %v", short(c.fi.Key), i, types.ExprString(arg), ok))
				}
			}
			return true
		})
	}
	if bad == 0 {
		r.Ob("century-rule", "-", true, fmt.Sprintf("no century remainder reaches an internal year in the date routines (%d call site(s) of century-rule helpers checked, %d package function(s) with a century rule on a parameter)", nSites, len(century)))
	}
}
