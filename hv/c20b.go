package main

// C20.R1 interpolation:equal-readings — a floating-point side of the
// interpolation that the polynomial normal form cannot see.
//
// "v_p·(1−w) + v_n·w" and "v_p + (v_n − v_p)·w" are the same polynomial, but
// only the second returns v exactly when the two neighbouring readings are the
// same number v: v − v is exactly 0, 0·t and 0/t are exactly 0 for finite t ≠ 0,
// v + 0 is exactly v.  The first form is off by one unit in the last place on
// some days, which (a) leaves the interval between the two given values and
// (b) trips the day loop's "level ≠ yesterday's level" test, which re-derives
// the saturated zone and resets water contents (C01).  The rule evaluates the
// returned expression with both readings replaced by one symbol, using only
// identities that are exact in IEEE arithmetic, and demands the symbol itself.

import (
	"go/ast"
	"go/constant"
	"go/token"
	"go/types"
)

type fxVal int

const (
	fxOther fxVal = iota // some finite value
	fxZero               // exactly 0
	fxV                  // exactly the common reading
)

func fxEval(info *types.Info, body ast.Node, e ast.Expr, isReading func(ast.Expr) bool, depth int) fxVal {
	e = stripParens(e)
	if depth > 12 {
		return fxOther
	}
	if isReading(e) {
		return fxV
	}
	if tv, ok := info.Types[e]; ok && tv.Value != nil {
		if constant.Sign(tv.Value) == 0 {
			return fxZero
		}
		return fxOther
	}
	switch t := e.(type) {
	case *ast.Ident:
		obj := useObj(info, t)
		if obj == nil {
			return fxOther
		}
		defs := defsOf(info, body, obj)
		if len(defs) == 1 && defs[0].Rhs != nil {
			return fxEval(info, body, defs[0].Rhs, isReading, depth+1)
		}
		return fxOther
	case *ast.CallExpr:
		// a conversion to a float type keeps a float value; anything else is "some value"
		if len(t.Args) == 1 {
			if tv, ok := info.Types[t.Fun]; ok && tv.IsType() {
				if b, ok := tv.Type.Underlying().(*types.Basic); ok && b.Info()&types.IsFloat != 0 {
					if at, ok := info.TypeOf(t.Args[0]).Underlying().(*types.Basic); ok && at.Info()&types.IsFloat != 0 {
						return fxEval(info, body, t.Args[0], isReading, depth+1)
					}
				}
			}
		}
		return fxOther
	case *ast.UnaryExpr:
		if t.Op == token.ADD {
			return fxEval(info, body, t.X, isReading, depth+1)
		}
		if t.Op == token.SUB && fxEval(info, body, t.X, isReading, depth+1) == fxZero {
			return fxZero
		}
		return fxOther
	case *ast.BinaryExpr:
		l := fxEval(info, body, t.X, isReading, depth+1)
		r := fxEval(info, body, t.Y, isReading, depth+1)
		switch t.Op {
		case token.SUB:
			if l == fxV && r == fxV {
				return fxZero
			}
			if r == fxZero {
				return l
			}
		case token.ADD:
			if l == fxZero {
				return r
			}
			if r == fxZero {
				return l
			}
		case token.MUL:
			if l == fxZero || r == fxZero {
				return fxZero
			}
		case token.QUO:
			if l == fxZero && r != fxZero {
				return fxZero
			}
		}
		return fxOther
	}
	return fxOther
}

// c20EqualReadings is called by c20Lookup with the interpolating return.
func c20EqualReadings(p *Prog, r *Report, fi *FuncInfo, ret *ast.ReturnStmt) {
	info := fi.Pkg.TypesInfo
	if ret == nil || len(ret.Results) < 1 {
		r.Ob("interpolation:equal-readings", p.Pos(fi.Decl.Pos()), false, "interpolating return not found in the syntax tree")
		return
	}
	isReading := func(e ast.Expr) bool {
		ie, ok := e.(*ast.IndexExpr)
		if !ok {
			return false
		}
		sel, ok := stripParens(ie.X).(*ast.SelectorExpr)
		if !ok || sel.Sel.Name != "GWTimeSeriesValues" {
			return false
		}
		_, isMap := info.TypeOf(ie.X).Underlying().(*types.Map)
		return isMap
	}
	// a guard "the two readings are equal → return one of them" before the general case is the other accepted form
	v := fxEval(info, fi.Decl.Body, ret.Results[0], isReading, 0)
	r.Ob("interpolation:equal-readings", p.Pos(ret.Pos()), v == fxV, "with both neighbouring readings equal to v the returned expression evaluates to exactly v under the IEEE-exact identities v−v=0, 0·t=0, 0/t=0, v±0=v (otherwise the level leaves [v, v] by a rounding step and the day loop's level-changed test fires on a constant series)")
}

// constantLevelRule is the C01 side: quantified over "constant groundwater depth", the day loop's
// level-changed test must stay false, so the lookup must be bit-exact for equal readings.
func constantLevelRule(p *Prog, r *Report, rule string) {
	r.Rule(rule, "constant groundwater depth: the day loop re-derives the saturated zone (and resets the water of the layers below the table) whenever the looked-up level differs from yesterday's; for a series of equal readings the lookup returns that reading bit for bit, so the reset is not triggered by rounding", 1)
	fi := p.Funcs["hermes.GetGroundWaterLevel"]
	if fi == nil || fi.Decl.Body == nil || len(fi.Decl.Body.List) == 0 {
		r.Ob("lookup", "-", false, "GetGroundWaterLevel not found")
		return
	}
	rs, _ := fi.Decl.Body.List[len(fi.Decl.Body.List)-1].(*ast.ReturnStmt)
	c20EqualReadings(p, r, fi, rs)
}
