package main

// Development tool (not a registered check): systematic mutation sweep.
//
//	hv mutsweep <Cxx> <file relative to repo> <func[,func...]> [--ops ror,aor,...] [--out file.json]
//
// Enumerates syntactic mutants of the named functions (relational operator
// boundary, arithmetic operator swap, index shift, integer literal +-1,
// statement deletion, compound assignment), feeds each through the overlay
// loader in a sub-process exactly like the thorough tier does, and lists the
// mutants the property's check does NOT report.  Survivors are read by hand:
// each is either behaviour-preserving / outside the property (recorded as
// such) or a gap in the rules.  Nothing under /repo is written.

import (
	"encoding/json"
	"fmt"
	"go/ast"
	"go/parser"
	"go/token"
	"os"
	"path/filepath"
	"sort"
	"strconv"
	"strings"
	"sync"
)

type mutant struct {
	ID     int    `json:"id"`
	Op     string `json:"op"`
	Func   string `json:"func"`
	Line   int    `json:"line"`
	From   string `json:"from"`
	To     string `json:"to"`
	Ctx    string `json:"ctx"`
	start  int
	end    int
	Result string   `json:"result"` // killed | survived | invalid
	Rules  []string `json:"rules,omitempty"`
}

func runMutSweep(args []string) int {
	if len(args) < 3 {
		fmt.Fprintln(os.Stderr, "usage: hv mutsweep <Cxx> <file> <func,func..|*> [--ops a,b] [--out f.json] [--lines a-b]")
		return 2
	}
	id, rel, fnames := args[0], args[1], strings.Split(args[2], ",")
	ops := map[string]bool{"ror": true, "aor": true, "idx": true, "lit": true, "del": true, "cas": true, "neg": true}
	out := ""
	lo, hi := 0, 1<<30
	for i := 3; i < len(args); i++ {
		switch args[i] {
		case "--ops":
			ops = map[string]bool{}
			for _, o := range strings.Split(args[i+1], ",") {
				ops[o] = true
			}
			i++
		case "--out":
			out = args[i+1]
			i++
		case "--lines":
			ab := strings.Split(args[i+1], "-")
			lo, _ = strconv.Atoi(ab[0])
			hi, _ = strconv.Atoi(ab[1])
			i++
		}
	}
	path := filepath.Join(repoRoot(), rel)
	src, err := os.ReadFile(path)
	if err != nil {
		fmt.Fprintln(os.Stderr, err)
		return 2
	}
	fset := token.NewFileSet()
	f, err := parser.ParseFile(fset, path, src, 0)
	if err != nil {
		fmt.Fprintln(os.Stderr, err)
		return 2
	}
	want := map[string]bool{}
	for _, n := range fnames {
		want[n] = true
	}
	var muts []*mutant
	off := func(p token.Pos) int { return fset.Position(p).Offset }
	add := func(op, fn string, start, end int, to string) {
		line := 1 + strings.Count(string(src[:start]), "\n")
		if line < lo || line > hi {
			return
		}
		ls := strings.LastIndex(string(src[:start]), "\n") + 1
		le := strings.Index(string(src[end:]), "\n")
		if le < 0 {
			le = len(src) - end
		}
		muts = append(muts, &mutant{Op: op, Func: fn, Line: line, From: string(src[start:end]), To: to, Ctx: strings.TrimSpace(string(src[ls : end+le])), start: start, end: end})
	}
	rorMap := map[token.Token][]string{token.LSS: {"<="}, token.LEQ: {"<"}, token.GTR: {">="}, token.GEQ: {">"}, token.EQL: {"!="}, token.NEQ: {"=="}}
	aorMap := map[token.Token][]string{token.ADD: {"-"}, token.SUB: {"+"}, token.MUL: {"/"}, token.QUO: {"*"}}
	casMap := map[token.Token][]string{token.ADD_ASSIGN: {"-=", "="}, token.SUB_ASSIGN: {"+=", "="}}
	for _, d := range f.Decls {
		fd, ok := d.(*ast.FuncDecl)
		if !ok || fd.Body == nil {
			continue
		}
		if !want["*"] && !want[fd.Name.Name] {
			continue
		}
		fn := fd.Name.Name
		ast.Inspect(fd.Body, func(n ast.Node) bool {
			switch x := n.(type) {
			case *ast.BinaryExpr:
				if ops["ror"] {
					for _, t := range rorMap[x.Op] {
						add("ror", fn, off(x.OpPos), off(x.OpPos)+len(x.Op.String()), t)
					}
				}
				if ops["aor"] {
					for _, t := range aorMap[x.Op] {
						add("aor", fn, off(x.OpPos), off(x.OpPos)+len(x.Op.String()), t)
					}
				}
				if ops["neg"] && (x.Op == token.LAND || x.Op == token.LOR) {
					t := "||"
					if x.Op == token.LOR {
						t = "&&"
					}
					add("neg", fn, off(x.OpPos), off(x.OpPos)+2, t)
				}
			case *ast.IndexExpr:
				if ops["idx"] {
					s, e := off(x.Index.Pos()), off(x.Index.End())
					txt := string(src[s:e])
					if _, isLit := x.Index.(*ast.BasicLit); !isLit {
						add("idx", fn, s, e, "("+txt+")+1")
						add("idx", fn, s, e, "("+txt+")-1")
					}
				}
			case *ast.BasicLit:
				if ops["lit"] && x.Kind == token.INT {
					v, err := strconv.Atoi(x.Value)
					if err == nil {
						add("lit", fn, off(x.Pos()), off(x.End()), strconv.Itoa(v+1))
						if v > 0 {
							add("lit", fn, off(x.Pos()), off(x.End()), strconv.Itoa(v-1))
						}
					}
				}
			case *ast.AssignStmt:
				if ops["cas"] {
					for _, t := range casMap[x.Tok] {
						add("cas", fn, off(x.TokPos), off(x.TokPos)+2, t)
					}
				}
				if ops["del"] && x.Tok != token.DEFINE {
					add("del", fn, off(x.Pos()), off(x.End()), "")
				}
			case *ast.IncDecStmt:
				if ops["del"] {
					add("del", fn, off(x.Pos()), off(x.End()), "")
				}
			case *ast.ExprStmt:
				if ops["del"] {
					add("del", fn, off(x.Pos()), off(x.End()), "")
				}
			case *ast.BranchStmt:
				if ops["del"] && x.Label == nil && (x.Tok == token.BREAK || x.Tok == token.CONTINUE) {
					add("del", fn, off(x.Pos()), off(x.End()), "")
				}
			case *ast.IfStmt:
				if ops["neg"] {
					s, e := off(x.Cond.Pos()), off(x.Cond.End())
					add("neg", fn, s, e, "!("+string(src[s:e])+")")
				}
			}
			return true
		})
	}
	for i, m := range muts {
		m.ID = i
	}
	fmt.Fprintf(os.Stderr, "mutsweep %s %s: %d mutants\n", id, rel, len(muts))
	sem := make(chan struct{}, 12)
	var wg sync.WaitGroup
	for _, m := range muts {
		wg.Add(1)
		go func(m *mutant) {
			defer wg.Done()
			sem <- struct{}{}
			defer func() { <-sem }()
			ns := string(src[:m.start]) + m.To + string(src[m.end:])
			keys, err := runOverlayChild(id, map[string][]byte{path: []byte(ns)})
			switch {
			case err != nil:
				m.Result = "invalid"
				if !strings.Contains(err.Error(), "type errors") {
					m.Rules = []string{err.Error()}
				}
			case len(keys) > 0:
				m.Result = "killed"
				if len(keys) > 3 {
					keys = keys[:3]
				}
				m.Rules = keys
			default:
				m.Result = "survived"
			}
		}(m)
	}
	wg.Wait()
	cnt := map[string]int{}
	for _, m := range muts {
		cnt[m.Result]++
	}
	sort.SliceStable(muts, func(i, j int) bool { return muts[i].Line < muts[j].Line })
	for _, m := range muts {
		if m.Result == "survived" {
			fmt.Printf("SURVIVED %s:%d %s [%s] %q -> %q   | %s\n", rel, m.Line, m.Func, m.Op, m.From, m.To, m.Ctx)
		}
		if m.Result == "invalid" && len(m.Rules) > 0 {
			fmt.Printf("CHILD-ERROR %s:%d %s [%s] %q -> %q: %s\n", rel, m.Line, m.Func, m.Op, m.From, m.To, m.Rules[0])
		}
	}
	fmt.Printf("mutsweep %s %s %v: total=%d killed=%d survived=%d invalid=%d\n", id, rel, fnames, len(muts), cnt["killed"], cnt["survived"], cnt["invalid"])
	if out != "" {
		b, _ := json.MarshalIndent(muts, "", " ")
		os.WriteFile(out, b, 0o644)
	}
	return 0
}
