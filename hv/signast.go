package main

// Factor-wise sign evaluation on the syntax tree.
//
// The polynomial normal form multiplies everything out; for the rate
// expressions of the denitrification routines (a Michaelis–Menten term times
// two saturating responses times an emission share) the expanded form has
// dozens of mixed-sign monomials and the sign engine of the domain rule gives
// up.  The sign of such a product is nevertheless visible factor by factor:
//   - constants, field reads with a named non-negativity assumption;
//   - a local: the union over its definitions, where a definition that is the
//     body of a floor / cap idiom (if x < c { x = c }) bounds the union;
//   - products, quotients, sums of equal-sign terms, powers of non-negative
//     bases, exp, max/min with a non-negative argument;
//   - the saturating response 1 − exp(t) with t ≤ 0, which lies in [0, 1).
// "Unknown" is sAll; nothing is assumed about a division by zero (the domain
// rule decides those).

import (
	"go/ast"
	"go/constant"
	"go/token"
	"go/types"
)

type astSigner struct {
	info   *types.Info
	body   ast.Node
	as     *Assumptions
	used   map[string]bool
	depth  int
	active map[types.Object]bool
}

func newAstSigner(info *types.Info, body ast.Node, as *Assumptions) *astSigner {
	return &astSigner{info: info, body: body, as: as, used: map[string]bool{}, active: map[types.Object]bool{}}
}

func sgOfConst(v constant.Value) Sg {
	switch constant.Sign(v) {
	case -1:
		return sN
	case 0:
		return sZ
	}
	return sP
}

// floorAt reports whether the definition site d (an assignment of a constant c to obj) is the body of
// "if obj < c { obj = c }" (floor, returns +1) or "if obj > c { obj = c }" (cap, returns −1).
func (s *astSigner) clampIdiom(obj types.Object, d localDef) int {
	path := nodePath(s.body, d.Stmt)
	if len(path) < 3 {
		return 0
	}
	blk, ok := path[len(path)-2].(*ast.BlockStmt)
	if !ok || len(blk.List) != 1 {
		return 0
	}
	ifs, ok := path[len(path)-3].(*ast.IfStmt)
	if !ok || ifs.Else != nil || ifs.Body != blk {
		return 0
	}
	be, ok := stripParens(ifs.Cond).(*ast.BinaryExpr)
	if !ok || useObj(s.info, be.X) != obj {
		return 0
	}
	cv, okc := s.info.Types[be.Y]
	dv, okd := s.info.Types[d.Rhs]
	if !okc || !okd || cv.Value == nil || dv.Value == nil || !constant.Compare(cv.Value, token.EQL, dv.Value) {
		return 0
	}
	switch be.Op {
	case token.LSS, token.LEQ:
		return +1
	case token.GTR, token.GEQ:
		return -1
	}
	return 0
}

func (s *astSigner) sign(e ast.Expr) Sg {
	e = stripParens(e)
	if s.depth > 40 {
		return sAll
	}
	s.depth++
	defer func() { s.depth-- }()
	if tv, ok := s.info.Types[e]; ok && tv.Value != nil {
		if k := tv.Value.Kind(); k == constant.Int || k == constant.Float {
			return sgOfConst(tv.Value)
		}
	}
	switch t := e.(type) {
	case *ast.Ident:
		obj := useObj(s.info, t)
		if obj == nil || s.active[obj] {
			return sAll
		}
		if _, isVar := obj.(*types.Var); !isVar {
			return sAll
		}
		defs := defsOf(s.info, s.body, obj)
		if len(defs) == 0 {
			// declared without value inside the function: zero; a parameter: unknown
			if obj.Pos() >= s.body.Pos() && obj.Pos() <= s.body.End() {
				return sZ
			}
			return sAll
		}
		s.active[obj] = true
		defer delete(s.active, obj)
		var union Sg
		floorC, capC := Sg(0), Sg(0)
		declaredZero := false
		ast.Inspect(s.body, func(n ast.Node) bool {
			if vs, ok := n.(*ast.ValueSpec); ok && len(vs.Values) == 0 {
				for _, nm := range vs.Names {
					if s.info.Defs[nm] == obj {
						declaredZero = true
					}
				}
			}
			return true
		})
		if declaredZero {
			union |= sZ
		}
		for _, d := range defs {
			if d.Rhs == nil {
				return sAll
			}
			if as, ok := d.Stmt.(*ast.AssignStmt); ok && as.Tok != token.ASSIGN && as.Tok != token.DEFINE {
				return sAll // compound assignment
			}
			// x = x · c, x = x / c with a positive constant keeps the sign
			if be, ok := stripParens(d.Rhs).(*ast.BinaryExpr); ok && (be.Op == token.MUL || be.Op == token.QUO) {
				if useObj(s.info, be.X) == obj {
					if cv, ok := s.info.Types[be.Y]; ok && cv.Value != nil && constant.Sign(cv.Value) > 0 {
						continue
					}
				}
				if be.Op == token.MUL && useObj(s.info, be.Y) == obj {
					if cv, ok := s.info.Types[be.X]; ok && cv.Value != nil && constant.Sign(cv.Value) > 0 {
						continue
					}
				}
			}
			if k := s.clampIdiom(obj, d); k != 0 {
				// the clamp bounds the value only for uses after it, when every plain definition precedes it
				after := d.Stmt.Pos() < t.Pos()
				for _, o := range defs {
					if o.Stmt != d.Stmt && s.clampIdiom(obj, o) == 0 && o.Stmt.Pos() > d.Stmt.Pos() {
						after = false
					}
				}
				if after {
					if k > 0 {
						floorC |= s.sign(d.Rhs)
					} else {
						capC |= s.sign(d.Rhs)
					}
					continue
				}
			}
			union |= s.sign(d.Rhs)
		}
		if floorC != 0 {
			// value ≥ c: with c ≥ 0 nothing negative survives; with c > 0 nothing ≤ 0
			if floorC&sN == 0 {
				union &^= sN
				if floorC == sP {
					union &^= sZ
				}
			}
			union |= floorC
		}
		if capC != 0 {
			if capC&sP == 0 {
				union &^= sP
				if capC == sN {
					union &^= sZ
				}
			}
			union |= capC
		}
		if union == 0 {
			return sAll
		}
		return union
	case *ast.UnaryExpr:
		switch t.Op {
		case token.SUB:
			return sgNeg(s.sign(t.X))
		case token.ADD:
			return s.sign(t.X)
		}
		return sAll
	case *ast.BinaryExpr:
		switch t.Op {
		case token.MUL, token.QUO:
			return sgMul(s.sign(t.X), s.sign(t.Y))
		case token.ADD:
			return sgAdd(s.sign(t.X), s.sign(t.Y))
		case token.SUB:
			// 1 − exp(t), t ≤ 0  ∈ [0, 1)
			if c, ok := s.info.Types[t.X]; ok && c.Value != nil && constant.Compare(constant.ToFloat(c.Value), token.EQL, constant.MakeFloat64(1)) {
				if call, ok := stripParens(t.Y).(*ast.CallExpr); ok && len(call.Args) == 1 {
					if f := callee(s.info, call); f != nil && f.Pkg() != nil && f.Pkg().Path() == "math" && f.Name() == "Exp" {
						if s.sign(call.Args[0])&sP == 0 {
							return sZ | sP
						}
					}
				}
			}
			return sgAdd(s.sign(t.X), sgNeg(s.sign(t.Y)))
		}
		return sAll
	case *ast.CallExpr:
		// conversions
		if tv, ok := s.info.Types[t.Fun]; ok && tv.IsType() && len(t.Args) == 1 {
			return s.sign(t.Args[0])
		}
		f := callee(s.info, t)
		if f == nil || f.Pkg() == nil || f.Pkg().Path() != "math" {
			return sAll
		}
		switch f.Name() {
		case "Exp":
			return sP
		case "Abs", "Sqrt":
			return sZ | sP
		case "Pow":
			if len(t.Args) == 2 {
				b := s.sign(t.Args[0])
				if b&sN == 0 {
					return b | sP // x^0 = 1
				}
				if n, ok := exprInt64(s.info, t.Args[1]); ok && n%2 == 0 {
					return sZ | sP
				}
			}
			return sAll
		case "Max":
			if len(t.Args) == 2 {
				a, b := s.sign(t.Args[0]), s.sign(t.Args[1])
				r := a | b
				if a&sN == 0 || b&sN == 0 {
					r &^= sN
				}
				if a == sP || b == sP {
					r = sP
				}
				return r
			}
		case "Min":
			if len(t.Args) == 2 {
				a, b := s.sign(t.Args[0]), s.sign(t.Args[1])
				r := a | b
				if a&sP == 0 || b&sP == 0 {
					r &^= sP
				}
				return r
			}
		}
		return sAll
	case *ast.IndexExpr, *ast.SelectorExpr:
		// a field of the model state with a named assumption
		x := ast.Expr(t)
		for {
			if ie, ok := x.(*ast.IndexExpr); ok {
				x = stripParens(ie.X)
				continue
			}
			break
		}
		if sel, ok := x.(*ast.SelectorExpr); ok && s.as != nil {
			if selObj, ok := s.info.Selections[sel]; ok {
				recv := selObj.Recv()
				if pt, isPtr := recv.(*types.Pointer); isPtr {
					recv = pt.Elem()
				}
				if named, ok := recv.(*types.Named); ok {
					if en := s.as.byRoot[named.Obj().Name()+"."+sel.Sel.Name]; en != nil {
						s.used[en.Name] = true
						return en.Sign
					}
				}
			}
		}
		return sAll
	}
	return sAll
}
