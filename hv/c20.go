package main

import (
	"fmt"
	"go/ast"
	"go/token"
	"go/types"
	"math"
	"math/big"
	"sort"
	"strings"
)

func init() { register("C20", checkC20) }

func checkC20(p *Prog, r *Report) {
	c20Lookup(p, r)
	c20Daily(p, r)
	c20Sinus(p, r)
	c20SeriesId(p, r)
	// the series dates are text in the configured date format
	dateTextRules(p, r, "C20.R7")
	// the series a run follows is the one it read for its own id: nothing parsed is kept in the session (shared with C03.R2b)
	c03Session(p, r, p.SSA(), "C20.R8")
	// the series a run reads stays the series it looks levels up in: only the reader (and the constructor) stores
	// into the timestamp list and the value map — a list trimmed during the run loses the reading that opens a gap
	{
		r.Rule("C20.R9", "the groundwater series is written by its reader only: no other function stores into the timestamp list or the value map", 1)
		var others []string
		for _, f := range []string{"GWTimestamps", "GWTimeSeriesValues"} {
			for _, w := range p.Fields().Writers(FieldRef{"GlobalVarsMain", f}) {
				if w.Key != "hermes.ReadGroundWaterTimeSeries" && w.Key != "hermes.NewGlobalVarsMain" {
					others = append(others, f+"@"+short(w.Key))
				}
			}
		}
		sort.Strings(others)
		r.Ob("series:writers", "-", len(others) == 0, fmt.Sprintf("writers of the series besides its reader: %v", others))
	}
	c20RecordFiling(p, r)
}

func c20Lookup(p *Prog, r *Report) {
	fi := p.Funcs["hermes.GetGroundWaterLevel"]
	x := walked(p, "hermes.GetGroundWaterLevel")
	r.Rule("C20.R1", "series lookup: an exact hit returns the series value; otherwise the result is v_prev + (v_next − v_prev)·(date − prev)/(next − prev); with only one neighbour its value; with none an error", 4)
	if fi == nil || x == nil {
		r.Ob("lookup", "-", false, "GetGroundWaterLevel not found")
		return
	}
	vals := "GlobalVarsMain.GWTimeSeriesValues"
	date := pVar("date")
	// returns in order
	var rets []*Event
	for _, e := range x.Events {
		if e.Kind == "return" && len(e.Rets) == 2 {
			rets = append(rets, e)
		}
	}
	if len(rets) < 5 {
		r.Ob("returns", p.Pos(fi.Decl.Pos()), false, fmt.Sprintf("%d return sites, expected exact hit, no neighbour, only next, only prev, interpolation", len(rets)))
		return
	}
	// neighbour variables: the two locals that index the series values in the last return
	last := rets[len(rets)-1]
	var pv, nv Poly
	interp := stripVersions(last.Rets[0])
	// find atoms vals[a], vals[b]
	var keys []Poly
	interp.walkAtoms(func(a *Atom) {
		if a.Kind == "cell" && a.Root == vals && len(a.Idx) == 1 {
			dup := false
			for _, k := range keys {
				if k.Equal(a.Idx[0]) {
					dup = true
				}
			}
			if !dup {
				keys = append(keys, a.Idx[0])
			}
		}
	})
	if len(keys) != 2 {
		r.Ob("interpolation", p.Pos(last.Pos), false, fmt.Sprintf("the general case reads %d series entries, expected the two neighbours", len(keys)))
		return
	}
	form := func(pr, nx Poly) Poly {
		vp, vn := cellP(vals, pr), cellP(vals, nx)
		return vp.Add(vn.Sub(vp).Mul(date.Sub(pr)).Div(nx.Sub(pr)))
	}
	ok := false
	for _, perm := range [][2]Poly{{keys[0], keys[1]}, {keys[1], keys[0]}} {
		if interp.Equal(form(perm[0], perm[1])) {
			pv, nv, ok = perm[0], perm[1], true
		}
	}
	r.Ob("interpolation", p.Pos(last.Pos), ok && isNilPoly(last.Rets[1]), fmt.Sprintf("general case returns %s (must be v_p + (v_n − v_p)(date − p)/(n − p))", clip(interp.String(), 260)))
	if !ok {
		return
	}
	{
		rs, _ := last.Stmt.(*ast.ReturnStmt)
		c20EqualReadings(p, r, fi, rs)
	}
	// role check: which neighbour is "previous"? the one assigned under d < date
	// exact hit first
	first := rets[0]
	hit := stripVersions(first.Rets[0])
	okHit := isNilPoly(first.Rets[1]) && (hit.MentionsRoot(vals) || strings.Contains(hit.String(), "level"))
	// the lookup key of the exact hit is the queried date itself
	keyOK := false
	keyTxt := "?"
	{
		info := fi.Pkg.TypesInfo
		dateName := ""
		if ns := paramNames(fi.Decl); len(ns) >= 2 {
			dateName = ns[1]
		}
		ast.Inspect(fi.Decl.Body, func(n ast.Node) bool {
			ifs, ok := n.(*ast.IfStmt)
			if !ok || ifs.Init == nil {
				return true
			}
			as, ok := ifs.Init.(*ast.AssignStmt)
			if !ok || len(as.Lhs) != 2 || len(as.Rhs) != 1 {
				return true
			}
			ie, ok := as.Rhs[0].(*ast.IndexExpr)
			if !ok {
				return true
			}
			if _, isMap := info.TypeOf(ie.X).Underlying().(*types.Map); !isMap {
				return true
			}
			keyTxt = types.ExprString(ie.Index)
			okId, _ := as.Lhs[1].(*ast.Ident)
			condId, _ := ifs.Cond.(*ast.Ident)
			if okId == nil || condId == nil || condId.Name != okId.Name {
				keyTxt += " (the branch is not taken on 'found')"
				return true
			}
			if id, ok := ie.Index.(*ast.Ident); ok && id.Name == dateName {
				// the value returned in the body is the looked-up value
				if v, ok := as.Lhs[0].(*ast.Ident); ok {
					for _, st := range ifs.Body.List {
						if rs, ok := st.(*ast.ReturnStmt); ok && len(rs.Results) == 2 {
							if rv, ok := rs.Results[0].(*ast.Ident); ok && rv.Name == v.Name {
								keyOK = true
							}
						}
					}
				}
			}
			return true
		})
	}
	r.Ob("exact-hit", p.Pos(first.Pos), okHit && keyOK, fmt.Sprintf("the first return hands back the series value stored for the date itself (lookup key %s must be the queried date: %v)", keyTxt, keyOK))
	// missing-neighbour cases (value 0 means 'none')
	cases := map[string]bool{}
	for _, e := range rets[1 : len(rets)-1] {
		pz := guardedBy(e, pv, token.EQL)
		nz := guardedBy(e, nv, token.EQL)
		v := stripVersions(e.Rets[0])
		switch {
		case pz && nz:
			cases["none"] = !isNilPoly(e.Rets[1])
			r.Ob("case:none", p.Pos(e.Pos), !isNilPoly(e.Rets[1]), "no neighbour at all returns an error")
		case pz:
			cases["only-next"] = v.Equal(cellP(vals, nv))
			r.Ob("case:only-next", p.Pos(e.Pos), v.Equal(cellP(vals, nv)) && isNilPoly(e.Rets[1]), fmt.Sprintf("before the first date the result is %s (must be the next value)", v))
		case nz:
			cases["only-prev"] = v.Equal(cellP(vals, pv))
			r.Ob("case:only-prev", p.Pos(e.Pos), v.Equal(cellP(vals, pv)) && isNilPoly(e.Rets[1]), fmt.Sprintf("after the last date the result is %s (must be the previous value)", v))
		}
	}
	for _, c := range []string{"none", "only-next", "only-prev"} {
		if _, ok := cases[c]; !ok {
			r.Ob("case:"+c, "-", false, "case '"+c+"' is not handled before the interpolation")
		}
	}
	// R3 neighbour search
	r.Rule("C20.R3", "neighbour search: prev is the greatest series date below the query and next the least above it (ascending series): either the linear scan 'd < date → prev = d; d > date → next = d, stop', or a binary search whose result idx gives prev = ts[idx−1] when idx > 0 and next = ts[idx] when idx < len(ts)", 2)
	ts := "GlobalVarsMain.GWTimestamps"
	pName, nName := pv.String(), nv.String()
	var pAssign, nAssign []*Event
	for _, e := range x.Events {
		if e.Kind == "assign" && e.Local != nil {
			if c, isC := e.Val.Const(); isC && c.Sign() == 0 {
				continue
			}
			if strings.HasPrefix(pName, e.Local.Name()) {
				pAssign = append(pAssign, e)
			}
			if strings.HasPrefix(nName, e.Local.Name()) {
				nAssign = append(nAssign, e)
			}
		}
	}
	if len(pAssign) != 1 || len(nAssign) != 1 {
		r.Ob("search", p.Pos(fi.Decl.Pos()), false, fmt.Sprintf("neighbours are assigned %d and %d times; search idiom not recognised", len(pAssign), len(nAssign)))
		return
	}
	pa, na := pAssign[0], nAssign[0]
	if len(pa.Loops) == 1 && len(na.Loops) == 1 && pa.Loops[0] == na.Loops[0] && pa.Loops[0].Range {
		// linear scan over the timestamps
		L := pa.Loops[0]
		d := pa.Val
		okP := guardedBy(pa, d.Sub(date), token.LSS)
		okN := na.Val.Equal(d) && guardedBy(na, d.Sub(date), token.GTR)
		// break right after next is set
		brk := false
		for _, e := range x.Events {
			if e.Kind == "break" && e.InLoop(L) && guardKeys(e.Guards) == guardKeys(na.Guards) {
				brk = true
			}
		}
		overTs := L.RangeX != nil && strings.HasSuffix(exprStr(L.RangeX), "GWTimestamps")
		r.Ob("search:scan", p.Pos(L.Stmt.Pos()), okP && okN && brk && overTs, fmt.Sprintf("linear scan over the timestamps (%v): prev set under d < date: %v; next set under d > date: %v and the scan stops there: %v", overTs, okP, okN, brk))
		r.Ob("search:idiom", p.Pos(L.Stmt.Pos()), true, "idiom: linear scan")
		return
	}
	// binary search idiom
	var idx Poly
	for _, e := range x.Events {
		if e.Kind == "call" && (e.Name == "sort.SearchInts" || e.Name == "sort.Search") && len(e.Args) >= 2 {
			// the local that receives it
			for _, a := range x.Events {
				if a.Kind == "assign" && a.Local != nil && a.Seq > e.Seq && a.Seq <= e.Seq+1 {
					idx = a.Val
				}
			}
			okArgs := e.Name == "sort.SearchInts" && stripVersions(e.Args[1]).Equal(date)
			r.Ob("search:idiom", p.Pos(e.Pos), okArgs, "idiom: binary search for the query date in the timestamps")
		}
	}
	if idx.T == nil {
		r.Ob("search", p.Pos(fi.Decl.Pos()), false, "neither the linear scan nor a binary search over the timestamps was recognised")
		return
	}
	ln := PCall("len", PAtom(cellAtom(ts, 0, nil)))
	okP := stripVersions(pa.Val).Equal(cellP(ts, idx.Sub(PInt(1)))) && guardedBy(pa, idx, token.GTR)
	okN := stripVersions(na.Val).Equal(cellP(ts, idx)) && guardedBy(na, idx.Sub(stripVersions(ln)), token.LSS)
	r.Ob("search:bsearch", p.Pos(pa.Pos), okP && okN, fmt.Sprintf("prev = ts[idx−1] under idx > 0: %v; next = ts[idx] under idx < len(ts): %v (guards: %s)", okP, okN, clip(guardKeys(na.Guards), 120)))
}

func exprStr(e ast.Expr) string {
	var sb strings.Builder
	ast.Inspect(e, func(n ast.Node) bool {
		if id, ok := n.(*ast.Ident); ok {
			sb.WriteString(id.Name)
			sb.WriteString(".")
		}
		return true
	})
	return strings.TrimSuffix(sb.String(), ".")
}

func c20Daily(p *Prog, r *Report) {
	r.Rule("C20.R4", "daily update: on every day of a time-series run the level is looked up for that day's number and assigned to the groundwater level; a lookup error ends the run; nothing else in the day loop stores the level", 2)
	x := walked(p, "hermes.HermesSession.Run")
	if x == nil {
		return
	}
	n := 0
	for _, e := range x.Events {
		if e.Kind != "call" || e.Name != "hermes.GetGroundWaterLevel" || len(e.Loops) == 0 {
			continue
		}
		n++
		L := e.Loops[0]
		okArg := L.Var != nil && len(e.Args) == 2 && e.Args[1].Equal(PAtom(L.Var))
		// unconditional per day except for the source switch
		src := e.HasGuard(func(c *Cond) bool {
			return c.Kind == "cmp" && c.Op == token.EQL && c.P.MentionsRoot("GlobalVarsMain.GROUNDWATERFROM")
		})
		extra := 0
		for _, g := range flattenGuards(e.Guards) {
			if !g.Loop && !(g.Kind == "cmp" && g.P.MentionsRoot("GlobalVarsMain.GROUNDWATERFROM")) && g != L.Cond {
				// guards from before the loop (argument checks etc.) are shared by the whole loop
				if condMentionsLoop(g, L) {
					extra++
				}
			}
		}
		// assigned to GRW
		asg := false
		for _, a := range x.Events {
			if a.Kind == "assign" && a.Root == "GlobalVarsMain.GRW" && a.Seq > e.Seq && a.Seq < e.Seq+3 {
				asg = true
			}
		}
		r.Ob("daily-lookup", p.Pos(e.Pos), okArg && src && extra == 0 && asg, fmt.Sprintf("lookup for the day loop's own day number: %v; under the time-series source switch only: %v (extra day-dependent guards: %d); result assigned to the level: %v", okArg, src, extra, asg))
	}
	if n == 0 {
		r.Ob("daily-lookup", "-", false, "no daily lookup of the groundwater series in the day loop")
	}
	// the level of the day is what its source gave: inside the day loop the level is stored by the series arm and by
	// the sinusoid arm and by nothing else (a later correction — a clamp at the drain depth, a smoothing — makes the
	// level differ from the supplied series)
	if day := dayLoop(x); day != nil {
		other := ""
		nSt := 0
		for _, e := range x.Events {
			if e.Kind != "assign" || e.Root != "GlobalVarsMain.GRW" || !e.InLoop(day) {
				continue
			}
			nSt++
			src := e.HasGuard(func(c *Cond) bool {
				return c.Kind == "cmp" && c.P.MentionsRoot("GlobalVarsMain.GROUNDWATERFROM")
			})
			v := stripVersions(e.Val)
			isLookup := strings.Contains(v.String(), "hermes.GetGroundWaterLevel")
			isSinus := v.MentionsRoot("GlobalVarsMain.AMPL") && v.MentionsRoot("GlobalVarsMain.GW")
			if !src || !(isLookup || isSinus) {
				other += fmt.Sprintf("GRW = %s at %s; ", clip(v.String(), 60), p.Pos(e.Pos))
			}
		}
		r.Ob("daily-level:no-other-store", "-", other == "" && nSt >= 2, fmt.Sprintf("%d stores of the level in the day loop; besides the series lookup and the sinusoid (each under its source switch): %s", nSt, orStr(other, "none")))
	}
}

func condMentionsLoop(c *Cond, L *LoopCtx) bool {
	m := false
	condAtoms(c, func(a *Atom) {
		if a.Kind == "loop" && strings.HasSuffix(a.Key, fmt.Sprintf("@L%d", L.ID)) {
			m = true
		}
	})
	return m
}

func c20Sinus(p *Prog, r *Report) {
	r.Rule("C20.R5", "sinusoidal level: mean = (low + high)/2 and amplitude = (low − high)/2 in real arithmetic from the same two inputs; at start and on every day the level is mean − amplitude·sin((day of year + phase)·π/180), hence inside [high, low]", 4)
	x := walked(p, "hermes.Input")
	lo, hi := cellP("GlobalVarsMain.GRLO"), cellP("GlobalVarsMain.GRHI")
	if x != nil {
		gwGuard := func(c *Cond) bool {
			return c.Kind == "cmp" && c.Op == token.EQL && c.P.MentionsRoot("GlobalVarsMain.GROUNDWATERFROM")
		}
		seen := map[string]bool{}
		// mean and amplitude are defined by the arm of the configured groundwater source and by nothing else: a later
		// adjustment of the mean (which also serves as the start level) moves the whole oscillation out of the interval
		nSrc := 0
		for _, e := range x.Events {
			if e.Kind != "assign" || (e.Root != "GlobalVarsMain.GW" && e.Root != "GlobalVarsMain.AMPL") {
				continue
			}
			src := e.HasGuard(gwGuard) || e.HasGuard(func(c *Cond) bool { return strings.Contains(c.Key(), "useGroundwaterFromSoilfile") && c.Kind != "not" })
			if src {
				nSrc++
				continue
			}
			r.Ob("mean:no-other-store", p.Pos(e.Pos), false, fmt.Sprintf("%s is stored outside the arms of the configured groundwater source (%s): the mean or amplitude of the oscillation no longer comes from the two given levels alone", shortRoot(e.Root), clip(guardKeys(e.Guards), 120)))
		}
		r.Ob("mean:no-other-store", "-", nSrc >= 4, fmt.Sprintf("%d stores of mean/amplitude in the input routine, all inside the arm of a groundwater source", nSrc))
		{
			var others []string
			for _, f := range []string{"GW", "AMPL"} {
				for _, w := range p.Fields().Writers(FieldRef{"GlobalVarsMain", f}) {
					if w.Key != "hermes.Input" && w.Key != "hermes.NewGlobalVarsMain" {
						others = append(others, f+"@"+w.Key)
					}
				}
			}
			sort.Strings(others)
			r.Ob("mean:writers", "-", len(others) == 0, fmt.Sprintf("writers of mean/amplitude besides the input routine: %v", others))
		}
		for _, e := range x.Events {
			if e.Kind != "assign" || !e.HasGuard(gwGuard) {
				continue
			}
			if e.Root != "GlobalVarsMain.GW" && e.Root != "GlobalVarsMain.AMPL" {
				continue
			}
			if _, isC := e.Val.Const(); isC {
				continue // the time-series arm sets the amplitude to 0
			}
			fromSeries := false
			e.Val.walkAtoms(func(a *Atom) {
				if strings.Contains(a.Key, "GetGroundWaterLevel") {
					fromSeries = true
				}
			})
			if fromSeries {
				continue
			}
			v := stripVersions(e.Val)
			var lov, hiv Poly
			for _, a := range x.Events {
				if a.Kind == "assign" && a.Seq < e.Seq && guardKeys(a.Guards) == guardKeys(e.Guards) {
					if a.Root == "GlobalVarsMain.GRLO" {
						lov = stripVersions(a.Val)
					}
					if a.Root == "GlobalVarsMain.GRHI" {
						hiv = stripVersions(a.Val)
					}
				}
			}
			if lov.T == nil {
				lov = lo
			}
			if hiv.T == nil {
				hiv = hi
			}
			want := lov.Add(hiv).Scale(ratFrac(1, 2))
			name := "mean"
			if e.Root == "GlobalVarsMain.AMPL" {
				want = lov.Sub(hiv).Scale(ratFrac(1, 2))
				name = "amplitude"
			}
			seen[name] = true
			r.Ob(name, p.Pos(e.Pos), v.Equal(want), fmt.Sprintf("%s = %s (must be %s, exactly half, no integer truncation)", name, clip(v.String(), 160), clip(want.String(), 160)))
		}
		for _, n := range []string{"mean", "amplitude"} {
			if !seen[n] {
				r.Ob(n, "-", false, n+" of the sinusoid is not set from the polygon file's two levels")
			}
		}
	}
	c20Phase(p, r)
	// the two evaluation sites
	tagNum := cellP("GlobalVarsMain.TAG.Index").Add(PInt(1))
	for _, key := range []string{"hermes.Init", "hermes.HermesSession.Run"} {
		sx := walked(p, key)
		if sx == nil {
			continue
		}
		found := false
		for _, e := range sx.Events {
			if e.Kind != "assign" || e.Root != "GlobalVarsMain.GRW" || !e.Val.MentionsRoot("GlobalVarsMain.AMPL") {
				continue
			}
			found = true
			v := stripVersions(e.Val)
			// v = GW − AMPL·sin(arg)
			gw, am := cellP("GlobalVarsMain.GW"), cellP("GlobalVarsMain.AMPL")
			s := gw.Sub(v).Div(am)
			t := s.single()
			ok := t != nil && len(t.M) == 1 && t.M[0].A.Kind == "call" && t.M[0].A.Fn == "sin" && t.C.Cmp(ratInt(1)) == 0
			det := fmt.Sprintf("level = %s", clip(v.String(), 200))
			if ok {
				arg := stripVersions(t.M[0].A.Args[0])
				// arg·180/π ≡ day-of-year + phase
				k := new(big.Rat).SetFloat64(math.Pi) // the constant π as the float64 the program uses
				k.Quo(k, ratInt(180))
				piA := arg.Scale(new(big.Rat).Inv(k))
				doy := piA.Sub(cellP("GlobalVarsMain.GWPhase"))
				// TAG may be forwarded (Init sets it just before): accept TAG.Index+1 in any forwarded form
				okArg := doy.Equal(tagNum)
				if !okArg && key == "hermes.Init" {
					// TAG was set by SetByIndex(ITAG-2) just before: day = ITAG − 1
					okArg = doy.Equal(cellP("GlobalVarsMain.ITAG").Sub(PInt(1)))
				}
				if !okArg {
					// in Run the day counter has been advanced in this iteration: TAG.Index(old)+DT+1
					okArg = doy.Sub(PInt(1)).MentionsRoot("GlobalVarsMain.TAG.Index") && !doy.MentionsRoot("GlobalVarsMain.AMPL") && len(doy.T) <= 3
				}
				ok = okArg
				det += fmt.Sprintf("; sine argument·180/π − phase = %s (must be the day of year)", doy)
			} else {
				det += " (must be mean − amplitude·sin(…))"
			}
			r.Ob("sinusoid:"+strings.TrimPrefix(key, "hermes."), p.Pos(e.Pos), ok, det)
		}
		if !found {
			r.Ob("sinusoid:"+strings.TrimPrefix(key, "hermes."), "-", false, "no evaluation of the sinusoidal level in "+key)
		}
	}
}

// c20Phase: "with the configured phase shift": the phase the sinusoid uses is the configured value for
// every configuration, including 0; the default lives in the default configuration, not in a value test.
func c20Phase(p *Prog, r *Report) {
	ws := p.Fields().WriteSites(FieldRef{"GlobalVarsMain", "GWPhase"})
	cw := p.Fields().WriteSites(FieldRef{"Config", "GroundWaterPhase"})
	x := walked(p, "hermes.readConfig")
	n, ok := 0, true
	pos := "-"
	det := ""
	if x != nil {
		for _, e := range x.Events {
			if e.Kind != "assign" || e.Root != "GlobalVarsMain.GWPhase" {
				continue
			}
			n++
			pos = p.Pos(e.Pos)
			v := stripVersions(e.Val)
			plain := false
			if t := v.single(); t != nil && len(t.M) == 1 && t.M[0].E == 1 && t.C.Cmp(ratInt(1)) == 0 && t.M[0].A.Kind == "cell" && strings.HasSuffix(t.M[0].A.Key, "GroundWaterPhase") {
				plain = true
			}
			if !plain || len(e.Guards) != 0 {
				ok = false
				det += fmt.Sprintf(" phase = %s under [%s];", clip(v.String(), 80), clip(guardKeys(e.Guards), 80))
			}
		}
	}
	if n != 1 || len(ws) != 1 || len(cw) != 0 {
		ok = false
	}
	r.Ob("phase:configured", pos, ok, fmt.Sprintf("the phase is stored %d time(s) in readConfig (%d write site(s) program-wide, %d direct store(s) into the configuration field): must be the single unconditional copy of the configured GroundWaterPhase (a value-dependent fallback replaces a configured phase of 0; the default belongs to the default configuration)%s", n, len(ws), len(cw), det))
}

// c20SeriesId: the level can only follow "the supplied series" if the reader
// keeps exactly the lines of the requested id: the id test must require the
// id at the start of the line AND a separator as the very next character.
func c20SeriesId(p *Prog, r *Report) { c20SeriesIdAs(p, r, "C20.R6") }

func c20SeriesIdAs(p *Prog, r *Report, rule string) {
	r.Rule(rule, "series selection: the time-series reader keeps a line only when the id filter accepts it, and the filter requires the requested id as line prefix followed immediately by a separator character (an id that merely starts with the requested id must not match); the read loop examines every line of the file", 3)
	rd := p.Funcs["hermes.ReadGroundWaterTimeSeries"]
	if rd == nil {
		r.Ob("reader", "-", false, "ReadGroundWaterTimeSeries not found")
		return
	}
	info := rd.Pkg.TypesInfo
	// the stores into the series are guarded by one filter call on the scanned line and the id parameter
	var filter *types.Func
	var fpos token.Pos
	ast.Inspect(rd.Decl.Body, func(n ast.Node) bool {
		is, ok := n.(*ast.IfStmt)
		if !ok {
			return true
		}
		call, ok := is.Cond.(*ast.CallExpr)
		if !ok {
			return true
		}
		writes := false
		ast.Inspect(is.Body, func(m ast.Node) bool {
			if as, ok := m.(*ast.AssignStmt); ok {
				for _, l := range as.Lhs {
					if f := fieldOf(info, l); f == "GWTimeSeriesValues" || f == "GWTimestamps" {
						writes = true
					}
				}
			}
			return true
		})
		if writes {
			filter = callee(info, call)
			fpos = call.Pos()
		}
		return true
	})
	if filter == nil {
		r.Ob("reader:filter", p.Pos(rd.Decl.Pos()), false, "the stores into the series are not guarded by a single id-filter call")
		return
	}
	r.Ob("reader:filter", p.Pos(fpos), true, "series entries are stored only for lines accepted by "+filter.Name())
	// every line of the file is examined: the rows of one id need not be contiguous (files ordered by date
	// interleave the ids), so the read loop may end only at end of input
	early := ""
	nLoops := 0
	ast.Inspect(rd.Decl.Body, func(n ast.Node) bool {
		fs, ok := n.(*ast.ForStmt)
		if !ok {
			return true
		}
		isScan := false
		if fs.Cond != nil {
			ast.Inspect(fs.Cond, func(m ast.Node) bool {
				if se, ok := m.(*ast.SelectorExpr); ok && se.Sel.Name == "Scan" {
					isScan = true
				}
				return true
			})
		}
		if !isScan {
			return true
		}
		nLoops++
		ast.Inspect(fs.Body, func(m ast.Node) bool {
			switch t := m.(type) {
			case *ast.BranchStmt:
				if t.Tok == token.BREAK || t.Tok == token.GOTO {
					early = p.Pos(t.Pos()) + " " + t.Tok.String()
				}
			case *ast.ReturnStmt:
				// an error return is fine, a nil-error return ends the read early
				if len(t.Results) > 0 {
					if id, ok := t.Results[len(t.Results)-1].(*ast.Ident); ok && id.Name == "nil" {
						early = p.Pos(t.Pos()) + " return nil"
					}
				}
			case *ast.FuncLit:
				return false
			case *ast.ForStmt, *ast.RangeStmt, *ast.SwitchStmt, *ast.SelectStmt:
				// a break inside a nested statement leaves that statement only
				ast.Inspect(t, func(k ast.Node) bool {
					if rs, ok := k.(*ast.ReturnStmt); ok && len(rs.Results) > 0 {
						if id, ok := rs.Results[len(rs.Results)-1].(*ast.Ident); ok && id.Name == "nil" {
							early = p.Pos(rs.Pos()) + " return nil"
						}
					}
					return true
				})
				return false
			}
			return true
		})
		return true
	})
	r.Ob("reader:all-lines", p.Pos(rd.Decl.Pos()), nLoops == 1 && early == "", fmt.Sprintf("the read loop (found: %d) runs to the end of the file: no break or successful return inside it %s — the rows of one id need not form one block", nLoops, early))
	ff := p.ByObj[filter]
	if ff == nil {
		r.Ob("filter:exact", p.Pos(fpos), false, "the id filter "+filter.FullName()+" is not an in-scope function: exactness not established")
		return
	}
	finfo := ff.Pkg.TypesInfo
	names := paramNames(ff.Decl)
	if len(names) != 2 {
		r.Ob("filter:exact", p.Pos(ff.Decl.Pos()), false, "unexpected filter signature")
		return
	}
	line, id := names[0], names[1]
	prefixOK, sepOK := false, 0
	isLenId := func(e ast.Expr) bool {
		c, ok := e.(*ast.CallExpr)
		if !ok || len(c.Args) != 1 {
			return false
		}
		f, ok := c.Fun.(*ast.Ident)
		a, ok2 := c.Args[0].(*ast.Ident)
		return ok && ok2 && f.Name == "len" && a.Name == id
	}
	// boolean skeleton: the result is a conjunction of (length guard)? ∧ (prefix test) ∧ (one OR-group of
	// "character directly after the id == separator constant"); nothing else, no negation, no inequality
	var ret ast.Expr
	nRet := 0
	ast.Inspect(ff.Decl.Body, func(n ast.Node) bool {
		if rs, ok := n.(*ast.ReturnStmt); ok && len(rs.Results) == 1 {
			ret = rs.Results[0]
			nRet++
		}
		return true
	})
	shape := ""
	var flat func(e ast.Expr, op token.Token) []ast.Expr
	flat = func(e ast.Expr, op token.Token) []ast.Expr {
		for {
			pe, ok := e.(*ast.ParenExpr)
			if !ok {
				break
			}
			e = pe.X
		}
		if be, ok := e.(*ast.BinaryExpr); ok && be.Op == op {
			return append(flat(be.X, op), flat(be.Y, op)...)
		}
		return []ast.Expr{e}
	}
	isPrefix := func(e ast.Expr) bool {
		switch t := e.(type) {
		case *ast.BinaryExpr:
			if t.Op != token.EQL {
				return false
			}
			if se, ok := t.X.(*ast.SliceExpr); ok {
				if x, ok := se.X.(*ast.Ident); ok && x.Name == line && isLenId(se.High) {
					lowOK := se.Low == nil
					if bl, ok := se.Low.(*ast.BasicLit); ok && bl.Value == "0" {
						lowOK = true
					}
					if y, ok := t.Y.(*ast.Ident); ok && y.Name == id && lowOK {
						return true
					}
				}
			}
		case *ast.CallExpr:
			if f := callee(finfo, t); f != nil && f.Pkg() != nil && f.Pkg().Path() == "strings" && f.Name() == "HasPrefix" && len(t.Args) == 2 {
				if x, ok := t.Args[0].(*ast.Ident); ok && x.Name == line {
					if y, ok := t.Args[1].(*ast.Ident); ok && y.Name == id {
						return true
					}
				}
			}
		}
		return false
	}
	isSep := func(e ast.Expr) bool {
		be, ok := e.(*ast.BinaryExpr)
		if !ok || be.Op != token.EQL {
			return false
		}
		ie, ok := be.X.(*ast.IndexExpr)
		if !ok {
			return false
		}
		x, ok := ie.X.(*ast.Ident)
		if !ok || x.Name != line || !isLenId(ie.Index) {
			return false
		}
		tv, ok := finfo.Types[be.Y]
		return ok && tv.Value != nil
	}
	isLenGuard := func(e ast.Expr) bool {
		be, ok := e.(*ast.BinaryExpr)
		if !ok || (be.Op != token.GEQ && be.Op != token.GTR) {
			return false
		}
		c, ok := be.X.(*ast.CallExpr)
		if !ok || len(c.Args) != 1 {
			return false
		}
		f, ok1 := c.Fun.(*ast.Ident)
		a, ok2 := c.Args[0].(*ast.Ident)
		return ok1 && ok2 && f.Name == "len" && a.Name == line && isLenId(be.Y)
	}
	if nRet != 1 || ret == nil {
		shape = fmt.Sprintf("%d return statements, expected one boolean expression", nRet)
	} else {
		for _, c := range flat(ret, token.LAND) {
			switch {
			case isPrefix(c):
				if prefixOK {
					shape = "two prefix tests"
				}
				prefixOK = true
			case isLenGuard(c):
			default:
				ds := flat(c, token.LOR)
				all := len(ds) > 0
				for _, d := range ds {
					if !isSep(d) {
						all = false
					}
				}
				if all && sepOK == 0 {
					sepOK = len(ds)
				} else {
					shape = "unexpected conjunct " + types.ExprString(c)
				}
			}
		}
	}
	r.Ob("filter:exact", p.Pos(ff.Decl.Pos()), prefixOK && sepOK > 0 && shape == "", fmt.Sprintf("%s is (length guard) ∧ (id is the line prefix: %v) ∧ (character directly after the id is one of %d separator constants) and nothing else %s (a test on the rest of the line as a whole lets 'W1' match the lines of 'W10'; an alternative instead of a conjunction accepts every line with a separator at that position)", filter.Name(), prefixOK, sepOK, shape))
}

// c20PhaseAs emits the phase rule as a rule of its own (for properties that depend on the groundwater table the
// inputs describe).
func c20PhaseAs(p *Prog, r *Report, rule string) {
	r.Rule(rule, "the configured groundwater phase reaches the model unchanged: a single unconditional copy of the configured value (a value-dependent fallback would replace a configured phase of 0 and move the table away from the one the inputs describe)", 1)
	c20Phase(p, r)
}
