package main

// A very small decision procedure used by path rules: is a conjunction of
// guard literals satisfiable over the integers?  Literals are the walker's
// conditions; linear comparisons (every term a rational constant times at
// most one atom) go through Fourier–Motzkin elimination after integer
// tightening (P > 0 becomes P − 1 ≥ 0 when all coefficients are integers),
// everything else is an opaque boolean that only clashes with its own
// negation.  "Unsatisfiable" is a proof; "satisfiable" only means no
// contradiction was found (the rational relaxation has a solution).

import (
	"go/token"
	"math/big"
	"sort"
)

type linCon struct {
	coef map[string]*big.Rat // atom key → coefficient
	c    *big.Rat            // Σ coef·x + c ≥ 0
}

type litSet struct {
	lin  []linCon
	bpos map[string]bool
	bneg map[string]bool
}

func newLitSet() *litSet { return &litSet{bpos: map[string]bool{}, bneg: map[string]bool{}} }

func (s *litSet) clone() *litSet {
	n := newLitSet()
	n.lin = append(n.lin, s.lin...)
	for k := range s.bpos {
		n.bpos[k] = true
	}
	for k := range s.bneg {
		n.bneg[k] = true
	}
	return n
}

// linearOf splits P into Σ coef·atom + c; ok=false when a term is not linear.
func linearOf(P Poly) (map[string]*big.Rat, *big.Rat, bool) {
	co := map[string]*big.Rat{}
	c := new(big.Rat)
	for _, t := range P.T {
		switch {
		case len(t.M) == 0:
			c.Add(c, t.C)
		case len(t.M) == 1 && t.M[0].E == 1:
			k := t.M[0].A.Key
			if co[k] == nil {
				co[k] = new(big.Rat)
			}
			co[k].Add(co[k], t.C)
		default:
			return nil, nil, false
		}
	}
	return co, c, true
}

func allInt(co map[string]*big.Rat, c *big.Rat) bool {
	if !c.IsInt() {
		return false
	}
	for _, v := range co {
		if !v.IsInt() {
			return false
		}
	}
	return true
}

func negCo(co map[string]*big.Rat, c *big.Rat) (map[string]*big.Rat, *big.Rat) {
	n := map[string]*big.Rat{}
	for k, v := range co {
		n[k] = new(big.Rat).Neg(v)
	}
	return n, new(big.Rat).Neg(c)
}

// dnf expands the condition (negated when neg) into alternatives added to each set of 'in'.
func dnf(c *Cond, neg bool, in []*litSet) []*litSet {
	switch c.Kind {
	case "const":
		if c.Val != neg {
			return in
		}
		return nil
	case "not":
		return dnf(c.Sub[0], !neg, in)
	case "and", "or":
		isAnd := (c.Kind == "and") != neg
		if isAnd {
			out := in
			for _, s := range c.Sub {
				out = dnf(s, neg, out)
			}
			return out
		}
		var out []*litSet
		for _, s := range c.Sub {
			var cp []*litSet
			for _, l := range in {
				cp = append(cp, l.clone())
			}
			out = append(out, dnf(s, neg, cp)...)
		}
		return out
	case "cmp":
		op := c.Op
		if neg {
			op = negOp(op)
		}
		co, k, ok := linearOf(c.P)
		if !ok {
			key := c.P.String()
			// opaque comparison: keyed by polynomial and operator
			var out []*litSet
			for _, l := range in {
				kk := key + " " + op.String()
				l.bpos[kk] = true
				out = append(out, l)
			}
			return out
		}
		// integer tightening only over integer-valued atoms (a float series value may lie strictly between two integers)
		integral := allInt(co, k)
		for _, t := range c.P.T {
			for _, f := range t.M {
				if !atomIntegral(f.A) {
					integral = false
				}
			}
		}
		one := big.NewRat(1, 1)
		ge := func(co map[string]*big.Rat, k *big.Rat, strict bool) (linCon, bool) {
			kk := new(big.Rat).Set(k)
			if strict {
				if !integral {
					return linCon{}, false // strictness lost: treated as ≥ (weaker, still sound for "unsat" proofs)
				}
				kk.Sub(kk, one)
			}
			return linCon{coef: co, c: kk}, true
		}
		addAll := func(cons ...linCon) []*litSet {
			var out []*litSet
			for _, l := range in {
				l.lin = append(l.lin, cons...)
				out = append(out, l)
			}
			return out
		}
		nco, nk := negCo(co, k)
		switch op {
		case token.GEQ:
			a, _ := ge(co, k, false)
			return addAll(a)
		case token.GTR:
			a, ok := ge(co, k, true)
			if !ok {
				a, _ = ge(co, k, false)
			}
			return addAll(a)
		case token.LEQ:
			a, _ := ge(nco, nk, false)
			return addAll(a)
		case token.LSS:
			a, ok := ge(nco, nk, true)
			if !ok {
				a, _ = ge(nco, nk, false)
			}
			return addAll(a)
		case token.EQL:
			a, _ := ge(co, k, false)
			b, _ := ge(nco, nk, false)
			return addAll(a, b)
		case token.NEQ:
			var out []*litSet
			for _, l := range in {
				l2 := l.clone()
				a, ok1 := ge(co, k, true)
				b, ok2 := ge(nco, nk, true)
				if !ok1 || !ok2 {
					out = append(out, l) // cannot use a non-integral disequality
					continue
				}
				l.lin = append(l.lin, a)
				l2.lin = append(l2.lin, b)
				out = append(out, l, l2)
			}
			return out
		}
		return in
	}
	// opaque boolean
	var out []*litSet
	for _, l := range in {
		if neg {
			l.bneg[c.Key()] = true
		} else {
			l.bpos[c.Key()] = true
		}
		out = append(out, l)
	}
	return out
}

func (s *litSet) sat() bool {
	for k := range s.bpos {
		if s.bneg[k] {
			return false
		}
	}
	return fmSat(s.lin)
}

func fmSat(cons []linCon) bool {
	for iter := 0; iter < 96; iter++ {
		// constant constraints
		var vars []string
		seen := map[string]bool{}
		var rest []linCon
		for _, c := range cons {
			nz := false
			for k, v := range c.coef {
				if v.Sign() != 0 {
					nz = true
					if !seen[k] {
						seen[k] = true
						vars = append(vars, k)
					}
				}
			}
			if !nz {
				if c.c.Sign() < 0 {
					return false
				}
				continue
			}
			rest = append(rest, c)
		}
		if len(vars) == 0 {
			return true
		}
		sort.Strings(vars)
		// eliminate the variable with the fewest upper×lower combinations first
		v := vars[0]
		best := -1
		for _, cand := range vars {
			np, nn := 0, 0
			for _, c := range rest {
				if cv := c.coef[cand]; cv != nil {
					if cv.Sign() > 0 {
						np++
					} else if cv.Sign() < 0 {
						nn++
					}
				}
			}
			if best < 0 || np*nn < best {
				best, v = np*nn, cand
			}
		}
		var pos, neg, none []linCon
		for _, c := range rest {
			cv := c.coef[v]
			switch {
			case cv == nil || cv.Sign() == 0:
				none = append(none, c)
			case cv.Sign() > 0:
				pos = append(pos, c)
			default:
				neg = append(neg, c)
			}
		}
		cons = none
		if len(pos)*len(neg) > 400 {
			return true // give up: not a proof of unsat
		}
		for _, a := range pos {
			for _, b := range neg {
				// a: av·v + A ≥ 0 (av>0), b: bv·v + B ≥ 0 (bv<0)  ⇒  (−bv)·A + av·B ≥ 0
				av := a.coef[v]
				bv := new(big.Rat).Neg(b.coef[v])
				n := linCon{coef: map[string]*big.Rat{}, c: new(big.Rat)}
				for k, x := range a.coef {
					if k == v {
						continue
					}
					n.coef[k] = new(big.Rat).Mul(x, bv)
				}
				for k, x := range b.coef {
					if k == v {
						continue
					}
					if n.coef[k] == nil {
						n.coef[k] = new(big.Rat)
					}
					n.coef[k].Add(n.coef[k], new(big.Rat).Mul(x, av))
				}
				n.c.Add(new(big.Rat).Mul(a.c, bv), new(big.Rat).Mul(b.c, av))
				cons = append(cons, n)
			}
		}
	}
	return true
}

// satisfiable reports whether guards ∧ extra can hold (no contradiction found).
func satisfiable(guards []*Cond, extra ...*Cond) bool {
	sets := []*litSet{newLitSet()}
	for _, g := range guards {
		sets = dnf(g, false, sets)
		if len(sets) > 256 {
			return true
		}
	}
	for _, g := range extra {
		sets = dnf(g, false, sets)
	}
	for _, s := range sets {
		if s.sat() {
			return true
		}
	}
	return false
}

func cmpCond(P Poly, op token.Token) *Cond { return &Cond{Kind: "cmp", P: P, Op: op} }
