package main

import (
	"fmt"
	"go/ast"
	"go/token"
	"go/types"
	"sort"
	"strings"
)

func init() { register("C04", checkC04) }

func checkC04(p *Prog, r *Report) {
	c04Errors(p, r)
	c04Readers(p, r)
	c04Carried(p, r, "C04.R2c", true)
	c04Expected(p, r)
	c04Pipeline(p, r, "C04.R3")
	c04Transform(p, r, "C04.R4")
	c04LoadYear(p, r, "C04.R5")
	c04DayCounter(p, r)
	c04Dispatch(p, r)
	c04StartOffset(p, r, "C04.R7")
	sentinelFallback(p, r, "C04.R8")
	c04TodayIndex(p, r)
	c04GapFill(p, r)
	// "this input's monthly correction": nothing read from a run's weather folder may be kept in the session
	// across runs except through the path-keyed file pool (shared with C03.R2b / C11.R5)
	c03Session(p, r, p.SSA(), "C04.R11")
	inputHelpers(p, r, "C04.R12")
	yearExtensionRule(p, r, "C04.R13")
	sessionOpenRule(p, r, "C04.R14")
	// a reader helper declared on the record VALUE fills a copy (shared with C13.lost-writes)
	lostWrites(p, r, "C04.R15")
	// the column a quantity is read from is the one whose header name equals a name of the alias table (shared with C13.headers)
	c13Headers(p, r, "C04.R16")
}

// ---------------------------------------------------------------- R1 weather errors propagate

var weatherErrFns = map[string]bool{"WetterK": true, "ReadWeatherCSV": true, "ReadWeatherCZ": true, "LoadYear": true, "ReadPreco": true, "anyWeatherError": true}

// confirmed call-site exceptions (reason per site)
var weatherErrExceptions = map[string]string{
	"PrognoseTime→WetterK":  "the forecast file *.nrm is optional by design (\"if not given, use current weather\"): the error is logged and the current weather stays loaded",
	"PrognoseTime→LoadYear": "called only after WetterK succeeded for the same year, which sets JAR[0] = year: the lookup cannot fail",
}

func c04Errors(p *Prog, r *Report) {
	r.Rule("C04.R1", "weather errors are never dropped: every call of a weather reader / year loader in run-reachable code returns, wraps or fatally reports the error (a gap, a short file or a missing year must end the run)", 12)
	s := p.SSA()
	reach := s.reachable(s.runFn())
	for _, e := range errSites(s, reach) {
		if !weatherErrFns[e.Callee.Name()] || fnPkgName(e.Callee) != "hermes" {
			continue
		}
		caller := e.Caller.Name()
		if e.Caller.Parent() != nil {
			caller = e.Caller.Parent().Name()
		}
		key := caller + "→" + e.Callee.Name()
		if !e.Propagate {
			if reason, ok := weatherErrExceptions[key]; ok {
				r.Ob("err:"+key, instrPos(p, e.Instr), true, "confirmed exception: "+reason)
				continue
			}
		}
		det := e.How
		if !e.Propagate {
			det += " — the run continues with whatever the weather arrays held before (previous year, or zeros)"
			// classify the site: first-year load or year roll-over
			if e.Caller.Parent() != nil && e.Caller.Parent().Name() == "Run" {
				if instrInLoop(e.Instr) {
					key += ":rollover"
				} else {
					key += ":firstyear"
				}
			}
		}
		r.Ob("err:"+key, instrPos(p, e.Instr), e.Propagate, det)
	}
}

// ---------------------------------------------------------------- R2 readers

var weatherArrays = map[string]bool{"TMP": true, "TMI": true, "TMA": true, "RADI": true, "REG": true, "RELF": true, "WIN": true, "VERD": true, "SUND": true, "ETNULL": true}

func weatherRoot(root string) (string, bool) {
	if !strings.HasPrefix(root, "s.") {
		return "", false
	}
	f := strings.TrimPrefix(root, "s.")
	return f, weatherArrays[f]
}

var readers = []string{"hermes.WetterK", "hermes.ReadWeatherCSV", "hermes.ReadWeatherCZ"}

func c04Readers(p *Prog, r *Report) { c04ReadersAs(p, r, "C04.R2") }

func c04ReadersAs(p *Prog, r *Report, rule string) {
	r.Rule(rule, "readers index by the validated day of year: every store of a weather value goes to [year][D−1] where the consecutive-day test on D (previous day + 1, or the date's own day-of-year) guards the store and its failure returns an error; the year length is set from the same D, unconditionally, in the same iteration", 27)
	for _, key := range readers {
		x := walked(p, key)
		fn := strings.TrimPrefix(key, "hermes.")
		if x == nil {
			r.Ob(fn, "-", false, "reader "+key+" not found")
			continue
		}
		nStores := 0
		var dayIdx, yearIdx Poly
		var dataGuards string
		var L *LoopCtx
		for _, e := range x.Events {
			if e.Kind != "assign" || len(e.Idx) != 2 || len(e.Loops) == 0 {
				continue
			}
			f, ok := weatherRoot(e.Root)
			if !ok {
				continue
			}
			nStores++
			L = e.Loops[len(e.Loops)-1]
			D := e.Idx[1].Add(PInt(1))
			// gap guard: an equality conjunct  X − D == 0
			var gap *Cond
			for _, g := range flattenGuards(e.Guards) {
				if g.Kind != "cmp" || g.Op != token.EQL {
					continue
				}
				for _, cand := range []Poly{g.P.Sub(D), g.P.Add(D)} {
					if !sharesAtoms(cand, D) {
						gap = g
					}
				}
			}
			ok2 := gap != nil
			det := fmt.Sprintf("%s[%s][%s]", f, e.Idx[0], e.Idx[1])
			if gap != nil {
				det += " guarded by the consecutive-day test " + gap.Key()
				// the failing side returns a non-nil error
				ret := false
				for _, q := range x.Events {
					if q.Kind == "return" && q.InLoop(L) && len(q.Rets) > 0 && !isNilPoly(q.Rets[len(q.Rets)-1]) {
						for _, g := range flattenGuards(q.Guards) {
							// the failing side may be one alternative of a wider rejection (counter mismatch OR date not consecutive)
							for _, alt := range disjuncts(g) {
								if alt.Kind == "cmp" && alt.Op == token.NEQ && alt.P.Equal(gap.P) {
									ret = true
								}
							}
						}
					}
				}
				if !ret {
					ok2 = false
					det += "; but the failing side of the test does not return an error"
				}
			} else {
				det += ": the store is not guarded by a test that the day follows the previous record (a gap would silently shift or skip days)"
			}
			if dayIdx.T == nil {
				dayIdx, yearIdx, dataGuards = e.Idx[1], e.Idx[0], guardKeys(e.Guards)
			} else if !dayIdx.Equal(e.Idx[1]) || !yearIdx.Equal(e.Idx[0]) {
				ok2 = false
				det += fmt.Sprintf("; index differs from the sibling stores [%s][%s]", yearIdx, dayIdx)
			}
			r.Ob(fn+":"+f, p.Pos(e.Pos), ok2, det)
		}
		if nStores < 9 {
			r.Ob(fn+":stores", "-", false, fmt.Sprintf("only %d weather stores recognised in %s", nStores, fn))
			continue
		}
		// year length
		found := false
		for _, e := range x.Events {
			if e.Kind == "assign" && e.Root == "s.MaxYearDays" && len(e.Idx) == 1 {
				found = true
				ok := e.InLoop(L) && e.Idx[0].Equal(yearIdx) && e.Val.Equal(dayIdx.Add(PInt(1))) && guardKeys(e.Guards) == dataGuards
				r.Ob(fn+":year-length", p.Pos(e.Pos), ok, fmt.Sprintf("MaxYearDays[%s] = %s under [%s]; must be set to the validated day D = %s of year index %s in the same iteration and under the same conditions as the data stores (a conditional or carried-over year length makes the roll-over use a wrong year length)", e.Idx[0], e.Val, clip(guardKeys(e.Guards), 160), dayIdx.Add(PInt(1)), yearIdx))
			}
		}
		if !found {
			r.Ob(fn+":year-length", "-", false, "no store to MaxYearDays in "+fn)
		}
		// year tag JAR[yearIdx]
		for _, e := range x.Events {
			if e.Kind == "assign" && e.Root == "s.JAR" && len(e.Idx) == 1 {
				ok := e.Idx[0].Equal(yearIdx)
				r.Ob(fn+":year-tag", p.Pos(e.Pos), ok, fmt.Sprintf("JAR[%s] = %s (index must be the data stores' year index %s)", e.Idx[0], clip(e.Val.String(), 80), yearIdx))
			}
		}
	}
}

func isNilPoly(q Poly) bool {
	t := q.single()
	return t != nil && len(t.M) == 1 && t.M[0].A.Key == "nil"
}

// sharesAtoms: q still mentions an atom of d (top level).
func sharesAtoms(q, d Poly) bool {
	atoms := map[*Atom]bool{}
	for _, t := range d.T {
		for _, f := range t.M {
			atoms[f.A] = true
		}
	}
	for _, t := range q.T {
		for _, f := range t.M {
			if atoms[f.A] {
				return true
			}
		}
	}
	return false
}

// ---------------------------------------------------------------- R3 pipeline

func c04Pipeline(p *Prog, r *Report, rule string) {
	r.Rule(rule, "normalisation pipeline: every success path of a reader first replaces missing values and then applies the unit transformation, both over the same number of years; the reader stores nothing into the fields those routines use after they have run", 3)
	// fields of the shared weather record that the normalisation routines (and the correction lookup) touch
	normFields := map[string]bool{}
	for _, k := range []string{"hermes.WeatherDataShared.replaceMissingValues", "hermes.WeatherDataShared.transformWeatherData"} {
		if nfi := p.Funcs[k]; nfi != nil {
			ast.Inspect(nfi.Decl.Body, func(n ast.Node) bool {
				if se, ok := n.(*ast.SelectorExpr); ok {
					if sel, ok := nfi.Pkg.TypesInfo.Selections[se]; ok && sel.Kind() == types.FieldVal {
						if name, _ := namedStruct(sel.Recv()); name == "WeatherDataShared" {
							normFields[se.Sel.Name] = true
						}
					}
				}
				return true
			})
		}
	}
	for _, key := range readers {
		x := walked(p, key)
		fn := strings.TrimPrefix(key, "hermes.")
		if x == nil {
			continue
		}
		var rep, tr *Event
		for _, e := range x.Events {
			if e.Kind != "call" {
				continue
			}
			if strings.HasSuffix(e.Name, ".replaceMissingValues") {
				rep = e
			}
			if strings.HasSuffix(e.Name, ".transformWeatherData") {
				tr = e
			}
		}
		ok := rep != nil && tr != nil && rep.Seq < tr.Seq && len(rep.Loops) == 0 && len(tr.Loops) == 0
		det := ""
		if ok {
			ok = len(rep.Args) > 0 && len(tr.Args) > 0 && rep.Args[0].Equal(tr.Args[0])
			det = fmt.Sprintf("replaceMissingValues(%s, …) then transformWeatherData(%s, …)", rep.Args[0], tr.Args[0])
			// every nil-error return comes after both calls
			for _, q := range x.Events {
				if q.Kind == "return" && len(q.Rets) > 0 && isNilPoly(q.Rets[len(q.Rets)-1]) && q.Seq < tr.Seq {
					ok = false
					det += "; a success return at " + p.Pos(q.Pos) + " precedes the normalisation"
				}
			}
			// the record is complete when normalisation starts: nothing the two routines read or write is stored by the
			// reader after the first of them was called (e.g. the year label, which selects the leap-year month limits
			// of the precipitation correction)
			for _, q := range x.Events {
				if q.Kind == "assign" && q.Seq > rep.Seq && strings.HasPrefix(q.Root, "s.") && normFields[strings.TrimPrefix(q.Root, "s.")] {
					ok = false
					det += fmt.Sprintf("; %s is stored at %s after the normalisation has run on it", q.Root, p.Pos(q.Pos))
				}
			}
			// both calls unconditional w.r.t. data (only the file-open guards)
			if guardKeys(rep.Guards) != guardKeys(tr.Guards) {
				ok = false
				det += "; the two steps run under different conditions"
			}
		} else {
			det = "missing-value replacement followed by unit transformation not found after the record loop"
		}
		pos := "-"
		if tr != nil {
			pos = p.Pos(tr.Pos)
		}
		r.Ob(fn, pos, ok, det)
	}
}

// ---------------------------------------------------------------- R4 transform / replace

func c04Transform(p *Prog, r *Report, rule string) {
	r.Rule(rule, "record-update index consistency: inside the (year, day) loop nests of the normalisation routines every element of a per-year weather array is addressed [y][index] (or by the declared neighbour cursors); the documented transforms are precipitation/10·correction(day = index+1), radiation/2, wind floor 0.5; the neighbour cursors wrap to the first/last record of the adjacent year", 8)
	x := walked(p, "hermes.WeatherDataShared.transformWeatherData")
	if x == nil {
		r.Ob("transform", "-", false, "transformWeatherData not found")
	} else {
		ls := loopsOf(x)
		if len(ls) < 2 || ls[0].Var == nil || ls[1].Var == nil {
			r.Ob("transform:loops", "-", false, "year/day loop nest not recognised")
		} else {
			y, d := PAtom(ls[0].Var), PAtom(ls[1].Var)
			// the nest visits every record of every loaded year
			loY, hiY, unitY, whyY := loopBounds(x, ls[0])
			loD, hiD, unitD, whyD := loopBounds(x, ls[1])
			var tparams []string
			if tfi := p.Funcs["hermes.WeatherDataShared.transformWeatherData"]; tfi != nil {
				tparams = paramNames(tfi.Decl)
			}
			okN := whyY == "" && whyD == "" && unitY && unitD && loY.IsZero() && loD.IsZero() && len(tparams) > 0 &&
				stripVersions(hiY).Equal(pVar(tparams[0]).Sub(PInt(1))) && stripVersions(hiD).Equal(stripVersions(cellP("s.MaxYearDays", y)).Sub(PInt(1)))
			r.Ob("transform:every-record", p.Pos(ls[0].Stmt.Pos()), okN, fmt.Sprintf("years %s..%s, days %s..%s, unit steps %v/%v (must be 0..years−1 and 0..MaxYearDays[y]−1: a record left out keeps mm and global radiation) %s %s", polyOr(loY), polyOr(hiY), polyOr(loD), polyOr(hiD), unitY, unitD, whyY, whyD))
			seen := map[string]bool{}
			for _, e := range x.Events {
				if e.Kind != "assign" || len(e.Idx) != 2 {
					continue
				}
				f, ok := weatherRoot(e.Root)
				if !ok {
					continue
				}
				seen[f] = true
				okIdx := e.Idx[0].Equal(y) && e.Idx[1].Equal(d)
				det := fmt.Sprintf("%s[%s][%s] = %s", f, e.Idx[0], e.Idx[1], clip(stripVersions(e.Val).String(), 160))
				if !okIdx {
					det += fmt.Sprintf(" — must address [%s][%s]: the update touches a different record than the one the loop is visiting", y, d)
				}
				cell := cellP(e.Root, y, d)
				v := stripVersions(e.Val)
				switch f {
				case "REG":
					// v = cell/10 · cor, cor = getCorrValue(d+1)
					q := v.Div(cell).Scale(ratInt(10))
					t := q.single()
					okT := t != nil && len(t.M) == 1 && t.M[0].E == 1 && t.C.Cmp(ratInt(1)) == 0 && t.M[0].A.Fn == "hermes.corrArr.getCorrValue"
					if okT {
						// the call event's argument
						for _, c := range x.Events {
							if c.Kind == "call" && c.Name == "hermes.corrArr.getCorrValue" && c.InLoop(ls[1]) {
								okT = len(c.Args) >= 1 && c.Args[0].Equal(d.Add(PInt(1)))
								det += fmt.Sprintf("; correction looked up for day %s (array index %s holds day index+1)", c.Args[0], d)
							}
						}
					}
					okIdx = okIdx && okT
				case "RADI":
					okIdx = okIdx && v.Equal(cell.Scale(ratFrac(1, 2)))
				case "WIN":
					c, isC := v.Const()
					floor := e.HasGuard(func(g *Cond) bool {
						return g.Kind == "cmp" && isCmp(&Cond{Kind: "cmp", P: stripVersions(g.P), Op: g.Op}, cell.Sub(v), token.LSS)
					})
					okIdx = okIdx && isC && c.Cmp(ratFrac(1, 2)) == 0 && floor
					if !floor {
						det += " — the floor must be guarded by the same record being below it"
					}
				}
				r.Ob("transform:"+f, p.Pos(e.Pos), okIdx, det)
			}
			for _, f := range []string{"REG", "RADI", "WIN"} {
				if !seen[f] {
					r.Ob("transform:"+f, "-", false, "documented normalisation of "+f+" not found")
				}
			}
		}
		c04CorrTable(p, r)
	}
	// replaceMissingValues
	x = walked(p, "hermes.WeatherDataShared.replaceMissingValues")
	if x == nil {
		r.Ob("replace", "-", false, "replaceMissingValues not found")
		return
	}
	ls := loopsOf(x)
	if len(ls) < 2 || ls[0].Var == nil || ls[1].Var == nil {
		r.Ob("replace:loops", "-", false, "year/day loop nest not recognised")
		return
	}
	y, d := PAtom(ls[0].Var), PAtom(ls[1].Var)
	lo := ls[1].Lo
	n := 0
	for _, e := range x.Events {
		if e.Kind != "assign" || len(e.Idx) != 2 {
			continue
		}
		f, ok := weatherRoot(e.Root)
		if !ok {
			continue
		}
		n++
		r.Ob("replace:"+f, p.Pos(e.Pos), e.Idx[0].Equal(y) && e.Idx[1].Equal(d), fmt.Sprintf("%s[%s][%s] is filled (must be the visited record [%s][%s])", f, e.Idx[0], e.Idx[1], y, d))
	}
	if n < 6 {
		r.Ob("replace:stores", "-", false, fmt.Sprintf("only %d fill stores found", n))
	}
	// cursors: the wrapped next cursor equals the day loop's lower bound
	for _, e := range x.Events {
		if e.Kind != "assign" || e.Local == nil || !e.InLoop(ls[1]) {
			continue
		}
		name := e.Local.Name()
		lname := strings.ToLower(name)
		if !strings.Contains(lname, "index") {
			continue
		}
		wrapNext := e.HasGuard(func(g *Cond) bool {
			// next cursor ran past the year: (index+1) − T >= 0
			return g.Kind == "cmp" && !g.Loop && g.P.MentionsAtom(ls[1].Var) && (g.Op == token.GEQ || g.Op == token.GTR || g.Op == token.LEQ || g.Op == token.LSS) && strings.Contains(lname, "next")
		})
		// previous-day cursor at the first record of a year: last record of the previous year
		if strings.Contains(lname, "prev") && !e.Val.Equal(d.Sub(PInt(1))) {
			wrapPrev := e.HasGuard(func(g *Cond) bool {
				return g.Kind == "cmp" && !g.Loop && stripVersions(g.P).Equal(mkCmp(d.Sub(PInt(1)), PZero(), token.LSS, nil).P)
			})
			if wrapPrev {
				v := stripVersions(e.Val)
				want := PAtom(cellAtom(weatherYearLenRoot(v), 0, []Poly{y.Sub(PInt(1))})).Sub(PInt(1))
				r.Ob("replace:prev-wrap", p.Pos(e.Pos), v.Equal(want), fmt.Sprintf("before the first day of a year the previous-day cursor is set to %s; the last record of the previous year is MaxYearDays[y−1] − 1", v))
			}
		}
		if strings.Contains(lname, "year") && strings.Contains(lname, "prev") && e.HasGuard(func(g *Cond) bool {
			return g.Kind == "cmp" && !g.Loop && stripVersions(g.P).Equal(mkCmp(d.Sub(PInt(1)), PZero(), token.LSS, nil).P)
		}) {
			r.Ob("replace:prev-wrap-year", p.Pos(e.Pos), stripVersions(e.Val).Equal(y.Sub(PInt(1))), fmt.Sprintf("previous-year cursor at the year start = %s (must be y − 1)", e.Val))
		}
		if strings.Contains(lname, "next") && wrapNext {
			if c, isC := e.Val.ConstInt(); isC && c >= 0 {
				r.Ob("replace:next-wrap", p.Pos(e.Pos), e.Val.Equal(lo), fmt.Sprintf("after the last day of a year the next-day cursor is set to %s; the first record of the following year is index %s (the day loop's lower bound)", e.Val, lo))
			}
		}
	}
}

// c04CorrTable: the monthly correction thresholds are the 1-based first days
// of the months (sibling agreement with the date converter's month table).
func c04CorrTable(p *Prog, r *Report) {
	fi := p.Funcs["hermes.corrArr.getCorrValue"]
	if fi == nil {
		r.Ob("corr-table", "-", false, "getCorrValue not found")
		return
	}
	info := fi.Pkg.TypesInfo
	var thr []int64
	ast.Inspect(fi.Decl.Body, func(n ast.Node) bool {
		if be, ok := n.(*ast.BinaryExpr); ok && be.Op == token.LSS {
			if tv, ok := info.Types[be.Y]; ok && tv.Value != nil {
				if cp, ok := constPoly(tv.Value); ok {
					if v, ok := cp.ConstInt(); ok {
						thr = append(thr, v)
					}
				}
			}
		}
		return true
	})
	sort.Slice(thr, func(i, j int) bool { return thr[i] < thr[j] })
	month := []int64{31, 28, 31, 30, 31, 30, 31, 31, 30, 31, 30}
	ok := len(thr) == 11
	cum := int64(0)
	for i := 0; ok && i < 11; i++ {
		cum += month[i]
		if thr[i] != cum+1 {
			ok = false
		}
	}
	r.Ob("corr-table", p.Pos(fi.Decl.Pos()), ok, fmt.Sprintf("month thresholds %v must be cumulative month lengths + 1 (argument is the 1-based day of year)", thr))
	// the thresholds are those of a regular year: in a leap year the day of the year is lowered by one from day 60
	// (29 February) on before it is compared with them, and the leap flag handed in is that of the record's year
	var dayP, leapP types.Object
	for _, f := range fi.Decl.Type.Params.List {
		for _, n := range f.Names {
			o := info.Defs[n]
			if b, isB := o.Type().Underlying().(*types.Basic); isB {
				switch {
				case b.Info()&types.IsInteger != 0 && dayP == nil:
					dayP = o
				case b.Info()&types.IsBoolean != 0 && leapP == nil:
					leapP = o
				}
			}
		}
	}
	okLeap, det := false, "the lookup takes no leap-year flag: on 29 February and on the last day of every later month of a leap year the next month's factor is applied"
	if dayP != nil && leapP != nil {
		det = "no 'leap year and day >= 60 → day − 1' adjustment before the month thresholds"
		for _, st := range fi.Decl.Body.List {
			ifs, isIf := st.(*ast.IfStmt)
			if !isIf || ifs.Else != nil || len(ifs.Body.List) != 1 {
				continue
			}
			if _, chain := stripParens(ifs.Cond).(*ast.BinaryExpr); !chain {
				continue
			}
			mentionsLeap := false
			ast.Inspect(ifs.Cond, func(n ast.Node) bool {
				if id, isId := n.(*ast.Ident); isId && info.Uses[id] == leapP {
					mentionsLeap = true
				}
				return true
			})
			// conjunction with the flag as a plain conjunct
			plain := false
			for _, c := range splitCond(ifs.Cond, false, nil) {
				if !c.Neg && useObj(info, c.E) == leapP {
					plain = true
				}
			}
			dec := false
			switch b := ifs.Body.List[0].(type) {
			case *ast.IncDecStmt:
				dec = b.Tok == token.DEC && useObj(info, b.X) == dayP
			case *ast.AssignStmt:
				if len(b.Lhs) == 1 && len(b.Rhs) == 1 && useObj(info, b.Lhs[0]) == dayP {
					if b.Tok == token.SUB_ASSIGN {
						if v, isC := exprInt64(info, b.Rhs[0]); isC && v == 1 {
							dec = true
						}
					} else if be, isB := stripParens(b.Rhs[0]).(*ast.BinaryExpr); isB && be.Op == token.SUB && useObj(info, be.X) == dayP {
						if v, isC := exprInt64(info, be.Y); isC && v == 1 {
							dec = true
						}
					}
				}
			}
			if !mentionsLeap || !plain || !dec {
				continue
			}
			vals := map[types.Object]bool{dayP: true}
			at59 := evalRangeCond(info, ifs.Cond, nil, vals, "", 59)
			at60 := evalRangeCond(info, ifs.Cond, nil, vals, "", 60)
			at366 := evalRangeCond(info, ifs.Cond, nil, vals, "", 366)
			if at59 == triF && at60 != triF && at366 != triF {
				okLeap, det = true, "day lowered by one under 'leap year ∧ day ≥ 60'"
			} else {
				det = "the leap adjustment does not start exactly at day 60"
			}
		}
	}
	r.Ob("corr-table:leap", p.Pos(fi.Decl.Pos()), okLeap, det)
	c04CorrArms(p, r, fi, dayP)
	// call site: the flag is 'year of the record divisible by 4' (the model's leap rule, 1901–2099)
	tf := p.Funcs["hermes.WeatherDataShared.transformWeatherData"]
	okSite, detSite := false, "call site not found"
	if tf != nil && leapP != nil {
		tinfo := tf.Pkg.TypesInfo
		ast.Inspect(tf.Decl.Body, func(n ast.Node) bool {
			call, isC := n.(*ast.CallExpr)
			if !isC {
				return true
			}
			if f := callee(tinfo, call); f == nil || f.Name() != "getCorrValue" || len(call.Args) != 2 {
				return true
			}
			detSite = "the leap flag handed in is " + types.ExprString(call.Args[1])
			arg := stripParens(call.Args[1])
			if o := useObj(tinfo, arg); o != nil {
				if ds := defsOf(tinfo, tf.Decl.Body, o); len(ds) == 1 && ds[0].Rhs != nil {
					arg = stripParens(ds[0].Rhs)
					detSite += " = " + types.ExprString(arg)
				}
			}
			be, isB := arg.(*ast.BinaryExpr)
			if !isB || be.Op != token.EQL {
				return true
			}
			z, isZ := exprInt64(tinfo, be.Y)
			mod, isM := stripParens(be.X).(*ast.BinaryExpr)
			if !isZ || z != 0 || !isM || mod.Op != token.REM {
				return true
			}
			four, isF := exprInt64(tinfo, mod.Y)
			ie, isI := stripParens(mod.X).(*ast.IndexExpr)
			if !isF || four != 4 || !isI {
				return true
			}
			sel, isS := stripParens(ie.X).(*ast.SelectorExpr)
			if !isS || sel.Sel.Name != "JAR" {
				return true
			}
			// the index is the variable of the year loop that encloses the call
			yv := useObj(tinfo, ie.Index)
			for _, nd := range nodePath(tf.Decl.Body, call) {
				if fs, isFor := nd.(*ast.ForStmt); isFor {
					if v, _, _, _ := forHeader(tinfo, fs); v != nil && v == yv {
						okSite = true
					}
				}
			}
			return true
		})
	}
	r.Ob("corr-table:leap-flag", p.Pos(fi.Decl.Pos()), okSite, detSite+" (must be 'JAR[y] % 4 == 0' of the year y whose records are transformed)")
}

// ---------------------------------------------------------------- R5 LoadYear

func c04LoadYear(p *Prog, r *Report, rule string) {
	r.Rule(rule, "year lookup copies record t of the selected year to day t: g.X[t] ← s.X[yearIdx][t] with the same t, the year selected by JAR[yearIdx] == year, the day count taken from that year, and an error when the year is not loaded; optional series and the file's scalars are copied exactly when the file has them; the year search visits every loaded year", 20)
	x := walked(p, "hermes.LoadYear")
	if x == nil {
		r.Ob("LoadYear", "-", false, "LoadYear not found")
		return
	}
	ls := loopsOf(x)
	if len(ls) < 2 || ls[0].Var == nil || ls[1].Var == nil {
		r.Ob("loops", "-", false, "year/day loop nest not recognised")
		return
	}
	yi, t := PAtom(ls[0].Var), PAtom(ls[1].Var)
	// the day loop copies the records 0 .. (days of that year) − 1 and nothing beyond: the slots behind the year's
	// last day hold whatever an earlier, longer year left there (the one-file-per-year layout reuses one record,
	// the multi-year layouts have a zeroed record per year), and the run reads a day or two ahead at the year's end
	{
		lo, hi, unit, why := loopBounds(x, ls[1])
		okb := why == "" && unit && lo.IsZero() && stripVersions(hi).Equal(stripVersions(cellP("s.MaxYearDays", yi).Sub(PInt(1))))
		r.Ob("copy:day-range", p.Pos(ls[1].Stmt.Pos()), okb, fmt.Sprintf("day loop runs %s .. %s in unit steps (want 0 .. s.MaxYearDays[%s] − 1) %s", polyOr(lo), polyOr(hi), yi, why))
	}
	pairs := map[string]string{"TEMP": "TMP", "TMIN": "TMI", "TMAX": "TMA", "RH": "RELF", "RAD": "RADI", "WIND": "WIN", "REGEN": "REG", "SUND": "SUND", "VERD": "VERD", "ETNULL": "ETNULL"}
	optional := map[string]bool{"SUND": true, "VERD": true, "ETNULL": true}
	selP := cellP("s.JAR", yi).Sub(pVar("year"))
	// guardsOK: besides the loop conditions, the year selection JAR[yearIdx] == year (exactly) and, for an optional
	// series or scalar, the positive "the file has this column" flag of the same name
	guardsOK := func(e *Event, flag string, allowRepair bool) (bool, string) {
		sel := false
		for _, g := range flattenGuards(e.Guards) {
			if g.Loop {
				continue
			}
			if g.Kind == "cmp" {
				gp := stripVersions(g.P)
				if g.Op == token.EQL && (gp.Equal(stripVersions(selP)) || gp.Equal(stripVersions(selP).Neg())) {
					sel = true
					continue
				}
				// exit condition of the finished day loop (for the scalars after it)
				if g.P.MentionsRoot("s.MaxYearDays") && !g.P.MentionsRoot("s.JAR") {
					continue
				}
			}
			if flag != "" && g.Kind != "not" && strings.Contains(g.Key(), "s.has"+flag) && !strings.Contains(g.Key(), "!") {
				continue
			}
			if allowRepair && g.Kind == "not" {
				continue
			}
			return false, "additionally conditional on " + g.Key()
		}
		if !sel {
			return false, "not under the selection JAR[yearIdx] == year of the same year index"
		}
		return true, ""
	}
	plain := map[string]bool{}
	swaps := map[string]string{}
	for _, e := range x.Events {
		if e.Kind != "assign" || !strings.HasPrefix(e.Root, "GlobalVarsMain.") || len(e.Idx) != 1 || !e.InLoop(ls[1]) {
			continue
		}
		gf := strings.TrimPrefix(e.Root, "GlobalVarsMain.")
		sf, ok := pairs[gf]
		if !ok {
			continue
		}
		v := stripVersions(e.Val)
		want := cellP("s."+sf, yi, t)
		swapped := false
		// the min/max repair swaps TMIN/TMAX from the other array of the same record
		if (gf == "TMIN" || gf == "TMAX") && !v.Equal(want) {
			other := map[string]string{"TMIN": "TMA", "TMAX": "TMI"}[gf]
			if v.Equal(cellP("s."+other, yi, t)) {
				swapped = true
			}
		}
		okc := e.Idx[0].Equal(t) && (v.Equal(want) || swapped)
		flag := ""
		if optional[gf] {
			flag = sf
		}
		okg, why := guardsOK(e, flag, swapped)
		key := "copy:" + gf
		if swapped {
			key += ":swap"
			swaps[gf] = guardKeys(e.Guards)
		} else if okc && okg {
			plain[gf] = true
		}
		r.Ob(key, p.Pos(e.Pos), okc && okg, fmt.Sprintf("g.%s[%s] ← %s (want s.%s[%s][%s]) %s", gf, e.Idx[0], v, sf, yi, t, why))
	}
	var gfs []string
	for gf := range pairs {
		gfs = append(gfs, gf)
	}
	sort.Strings(gfs)
	for _, gf := range gfs {
		if !plain[gf] {
			r.Ob("copy:"+gf, "-", false, "no plain copy of the selected year's "+gf+" record in LoadYear")
		}
	}
	if len(swaps) > 0 {
		r.Ob("copy:minmax-repair", p.Pos(ls[1].Stmt.Pos()), len(swaps) == 2 && swaps["TMIN"] == swaps["TMAX"], fmt.Sprintf("the min/max repair exchanges both values under the same condition: TMIN under [%s], TMAX under [%s]", clip(swaps["TMIN"], 100), clip(swaps["TMAX"], 100)))
	}
	// per-year and per-file scalars
	for _, sc := range []struct {
		g, s    string
		perYear bool
	}{{"WINDHI", "WINDHI", false}, {"CO2KONZ", "CO2KONZ", true}, {"ALTI", "ALTITUDE", false}} {
		found := false
		for _, e := range x.Events {
			if e.Kind != "assign" || e.Root != "GlobalVarsMain."+sc.g || len(e.Idx) != 0 {
				continue
			}
			found = true
			want := cellP("s." + sc.s)
			if sc.perYear {
				want = cellP("s."+sc.s, yi)
			}
			okg, why := guardsOK(e, sc.s, false)
			r.Ob("scalar:"+sc.g, p.Pos(e.Pos), stripVersions(e.Val).Equal(stripVersions(want)) && okg && e.InLoop(ls[0]), fmt.Sprintf("g.%s ← %s (want %s, when the file provides it) %s", sc.g, stripVersions(e.Val), want, why))
		}
		if !found {
			r.Ob("scalar:"+sc.g, "-", false, "the file's "+sc.s+" is not handed to the run")
		}
	}
	// year search visits every loaded year
	loY, hiY, unitY, whyY := loopBounds(x, ls[0])
	okYr := whyY == "" && unitY && loY.IsZero()
	if okYr {
		h := stripVersions(hiY).Add(PInt(1))
		tm := h.single()
		okYr = tm != nil && len(tm.M) == 1 && tm.M[0].A.Kind == "call" && tm.M[0].A.Fn == "len" && strings.Contains(tm.M[0].A.Key, "s.MaxYearDays")
	}
	r.Ob("year-range", p.Pos(ls[0].Stmt.Pos()), okYr, fmt.Sprintf("the year search runs %s..%s step one: %v (must visit every loaded year) %s", polyOr(loY), polyOr(hiY), unitY, whyY))
	// day count
	nJ := 0
	for _, e := range x.Events {
		if e.Kind == "assign" && e.Root == "GlobalVarsMain.JTAG" {
			nJ++
			v := stripVersions(e.Val)
			okg, why := guardsOK(e, "", false)
			r.Ob("day-count", p.Pos(e.Pos), v.Equal(cellP("s.MaxYearDays", yi)) && okg, fmt.Sprintf("JTAG ← %s (must be MaxYearDays[%s] of the selected year) %s", v, yi, why))
		}
	}
	if nJ == 0 {
		r.Ob("day-count", "-", false, "the length of the loaded year is not handed to the day loop")
	}
	// day loop bound is that year's length
	_, hi, unit, why := loopBounds(x, ls[1])
	r.Ob("day-range", p.Pos(ls[1].Stmt.Pos()), why == "" && unit && ls[1].Lo.IsZero() && stripVersions(hi).Equal(cellP("s.MaxYearDays", yi).Sub(PInt(1))), fmt.Sprintf("days 0..%s of the selected year are copied %s", polyOr(hi), why))
	// not found → error
	nf := false
	for _, q := range x.Events {
		if q.Kind == "return" && len(q.Loops) == 0 && len(q.Rets) == 1 && !isNilPoly(q.Rets[0]) {
			nf = true
		}
	}
	r.Ob("not-found", "-", nf, "falling out of the year search returns a non-nil error")
}

// ---------------------------------------------------------------- R6 day counter

func c04DayCounter(p *Prog, r *Report) {
	r.Rule("C04.R6", "day counter and calendar move in lock-step: the day-of-year index is advanced exactly once per iteration of the day loop, before any use; the roll-over fires when the 1-based day passes the loaded year length, resets the day to 1 and advances the year by one; every year (re)load asks for year 1900+J", 7)
	x := walked(p, "hermes.HermesSession.Run")
	if x == nil {
		r.Ob("run", "-", false, "run closure not found")
		return
	}
	si := substepScope(p)
	if si.Loop == nil {
		r.Ob("day-loop", "-", false, "sub-step loop (hence day loop) not found")
		return
	}
	// the day loop is the loop enclosing the sub-step loop
	var day *LoopCtx
	for _, e := range x.Events {
		if e.InLoop(si.Loop) && len(e.Loops) >= 2 {
			day = e.Loops[len(e.Loops)-2]
			break
		}
	}
	if day == nil {
		r.Ob("day-loop", "-", false, "day loop not found")
		return
	}
	tag := "GlobalVarsMain.TAG.Index"
	var writes []*Event
	for _, e := range x.Events {
		if e.Kind == "assign" && e.Root == tag && e.InLoop(day) {
			writes = append(writes, e)
		}
	}
	dt := cellP("GlobalVarsMain.DT.Index")
	adv, reset := 0, 0
	var advVal Poly
	for _, e := range writes {
		d := e.Val.Sub(e.Old)
		switch {
		case innermost(e, day) && unconditionalIn(e, day) && (d.Equal(dt) || d.Equal(PInt(1))):
			advVal = e.Val
			adv++
			// before any use: no earlier event in the loop reads TAG
			first := true
			for _, q := range x.Events {
				if q.InLoop(day) && q.Seq < e.Seq && (q.Val.MentionsRoot(tag) || mentionsRootIdx(q, tag)) {
					first = false
				}
			}
			r.Ob("advance", p.Pos(e.Pos), first, fmt.Sprintf("TAG advanced by %s unconditionally at the top of the day loop, before any use: %v", d, first))
		case e.Val.IsZero():
			reset++
			// guard: TAG.Index + 1 > JTAG
			g := e.HasGuard(func(c *Cond) bool {
				cur := cellP(tag)
				if advVal.T != nil {
					cur = advVal
				}
				want := cur.Add(PInt(1)).Sub(cellP("GlobalVarsMain.JTAG"))
				return c.Kind == "cmp" && isCmp(&Cond{Kind: "cmp", P: stripVersions(c.P), Op: c.Op}, stripVersions(want), token.GTR)
			})
			// J advanced by one in the same arm
			jinc := false
			for _, q := range x.Events {
				if q.Kind == "assign" && q.Root == "GlobalVarsMain.J" && guardKeys(q.Guards) == guardKeys(e.Guards) && q.Val.Sub(q.Old).Equal(PInt(1)) {
					jinc = true
				}
			}
			r.Ob("roll-over", p.Pos(e.Pos), g && jinc, fmt.Sprintf("day reset to the first record under 'day number > year length': %v; year advanced by one in the same arm: %v", g, jinc))
		default:
			r.Ob("day-write", p.Pos(e.Pos), false, "unexpected write of the day-of-year counter in the day loop: "+e.Val.String())
		}
	}
	if adv != 1 {
		r.Ob("advance", "-", false, fmt.Sprintf("%d unconditional advances of the day counter per iteration, expected exactly 1", adv))
	}
	if reset != 1 {
		r.Ob("roll-over", "-", false, fmt.Sprintf("%d roll-over resets found, expected 1", reset))
	}
	// J written only by the roll-over inside the loop
	for _, q := range x.Events {
		if q.Kind == "assign" && q.Root == "GlobalVarsMain.J" && q.InLoop(day) && !q.Val.Sub(q.Old).Equal(PInt(1)) {
			r.Ob("year-write", p.Pos(q.Pos), false, "year counter J is assigned "+q.Val.String()+" inside the day loop")
		}
	}
	// every load asks for 1900 + J
	n := 0
	want := cellP("GlobalVarsMain.J").Add(PInt(1900))
	for _, e := range x.Events {
		if e.Kind != "call" || (e.Name != "hermes.LoadYear" && e.Name != "hermes.WetterK") {
			continue
		}
		n++
		var yr Poly
		if e.Name == "hermes.LoadYear" {
			yr = e.Args[2]
		} else {
			yr = e.Args[1]
		}
		okY := stripVersions(yr).Equal(want)
		if !okY {
			// J may have been forwarded: the latest assignment J = X before the call
			var last *Event
			for _, q := range x.Events {
				if q.Kind == "assign" && q.Root == "GlobalVarsMain.J" && q.Seq < e.Seq {
					last = q
				}
			}
			if last != nil && yr.Equal(last.Val.Add(PInt(1900))) {
				okY = true
			}
		}
		r.Ob("year-arg:"+strings.TrimPrefix(e.Name, "hermes."), p.Pos(e.Pos), okY, fmt.Sprintf("year argument %s (must be 1900+J)", stripVersions(yr)))
	}
	if n < 7 {
		r.Ob("year-arg", "-", false, fmt.Sprintf("%d year (re)load sites found, expected 7", n))
	}
	// reload happens on the first day of a year: guard TAG.Num == DT.Num
	for _, e := range x.Events {
		if e.Kind == "call" && e.Name == "hermes.LoadYear" && e.InLoop(day) {
			g := e.HasGuard(func(c *Cond) bool {
				return c.Kind == "cmp" && c.Op == token.EQL && !c.Loop && c.P.MentionsRoot(tag) && c.P.MentionsRoot("GlobalVarsMain.DT.Index") && len(c.P.T) <= 3
			})
			r.Ob("reload-day", p.Pos(e.Pos), g, "the year's weather is (re)loaded exactly when the day number equals the first day")
		}
	}
}

func dayHead(x *Exec, day *LoopCtx) []*Cond {
	for _, e := range x.Events {
		if innermost(e, day) {
			// guards of the first event directly in the loop body: the loop's own conditions
			return e.Guards
		}
	}
	return nil
}

func mentionsRootIdx(e *Event, root string) bool {
	for _, ix := range e.Idx {
		if ix.MentionsRoot(root) {
			return true
		}
	}
	for _, a := range e.Args {
		if a.MentionsRoot(root) {
			return true
		}
	}
	return false
}

// unconditionalIn: the event is not guarded by any condition introduced
// inside loop L (only the loop's own header condition and outer guards).
func unconditionalIn(e *Event, L *LoopCtx) bool {
	idx := -1
	for i, g := range e.Guards {
		if g == L.Cond {
			idx = i
		}
	}
	if idx < 0 {
		return L.Cond == nil
	}
	return idx == len(e.Guards)-1
}

// weatherYearLenRoot returns the root of the year-length array mentioned in v
// (the receiver's MaxYearDays), or a placeholder that cannot match.
func weatherYearLenRoot(v Poly) string {
	root := "?.MaxYearDays"
	v.walkAtoms(func(a *Atom) {
		if a.Kind == "cell" && strings.HasSuffix(a.Root, ".MaxYearDays") {
			root = a.Root
		}
	})
	return root
}

// c04Expected: in the date-keyed layouts the expected day of year is a running
// counter that the consecutive-day test compares with the record's own date.
// It may be seeded from the record only for the very first record; every other
// definition must be independent of the record being validated (counter + 1,
// or 1 at a year change) — otherwise the test compares the date with itself.
func c04Expected(p *Prog, r *Report) {
	r.Rule("C04.R2b", "the expected day-of-year counter of the date-keyed readers is independent of the record it validates: it is seeded from a record's date only under the first-record flag, otherwise advanced by one or reset to 1; the consecutive-day test compares the record's own day of year with that counter", 6)
	for _, key := range []string{"hermes.ReadWeatherCSV", "hermes.ReadWeatherCZ"} {
		x := walked(p, key)
		if x == nil {
			r.Ob(short(key), "-", false, "reader not found")
			continue
		}
		// the counter: local compared in the guard of the "missing days" error return
		var ctr types.Object
		for _, e := range x.Events {
			if e.Kind == "assign" && e.Local != nil && e.Local.Name() == "T" {
				ctr = e.Local
			}
		}
		if ctr == nil {
			r.Ob(short(key)+":counter", "-", false, "expected-day counter not found")
			continue
		}
		for _, e := range x.Events {
			if e.Kind != "assign" || e.Local != ctr {
				continue
			}
			fromRecord := false
			e.Val.walkAtoms(func(a *Atom) {
				if a.Kind == "opq" || a.Kind == "call" || a.Kind == "cell" {
					fromRecord = true
				}
			})
			ok := true
			how := ""
			switch {
			case !fromRecord && len(e.Loops) == 0:
				how = "initialised to " + e.Val.String()
			case !fromRecord && e.Val.Sub(e.Old).Equal(PInt(1)):
				how = "advanced by one per record"
			case !fromRecord:
				if c, isC := e.Val.ConstInt(); isC && c == 1 {
					how = "reset to 1 at a year change"
				} else {
					ok, how = false, "unexpected definition "+e.Val.String()
				}
			default:
				first := e.HasGuard(func(c *Cond) bool { return c.Kind == "opq" && strings.HasPrefix(c.Text, "first@") })
				if first {
					how = "seeded from the record's date under the first-record flag"
				} else if carriedDate[key] {
					how = "re-seeded from the record's date; harmless here because the gap test also compares the record's date with the previous record's date (C04.R2c carried-date)"
				} else {
					ok, how = false, "re-seeded from the record's own date ("+clip(e.Val.String(), 60)+") outside the first-record case: the consecutive-day test then compares the date with itself and a gap (e.g. across New Year) is accepted"
				}
			}
			r.Ob(short(key)+":counter", p.Pos(e.Pos), ok, "T: "+how)
		}
		// the year label of a slot is the year of the record stored in it (LoadYear selects the slot by this label)
		nj := 0
		for _, e := range x.Events {
			if e.Kind != "assign" || !strings.HasSuffix(e.Root, ".JAR") || len(e.Idx) != 1 {
				continue
			}
			nj++
			t := e.Val.single()
			fromDate := t != nil && t.C.Cmp(ratInt(1)) == 0 && len(t.M) == 1 && strings.Contains(t.M[0].A.Key, "Year()")
			r.Ob(short(key)+":year-label", p.Pos(e.Pos), fromDate, fmt.Sprintf("JAR[%s] = %s (must be the year of the record's own date: a label computed from the slot counter makes a file that starts late or lacks a year pass for the requested years)", e.Idx[0], clip(e.Val.String(), 80)))
		}
		if nj == 0 {
			r.Ob(short(key)+":year-label", "-", false, "the reader never labels its year slots")
		}
	}
}

// ---------------------------------------------------------------- R7 start offset

// c04StartOffset: the first simulated day must read the record of the start
// date.  The day loop advances the 0-based record index before it reads the
// weather (R6), so Init has to leave it at (day of year of the start date) − 2,
// whatever that value is: for a start on 1 January it is −1, and the advance
// makes it 0.  A floor, cap or any other conditional definition shifts every
// day of the run by one record for exactly those start dates.
func c04StartOffset(p *Prog, r *Report, rule string) {
	r.Rule(rule, "start offset: Init sets the record index to (day of year of the start date) − 2 by one unconditional, unclamped definition; the day of year is the first result of the date conversion whose second result is the start day number; the year counter must equal the calendar year of the first day", 4)
	x := walked(p, "hermes.Init")
	if x == nil {
		r.Ob("Init", "-", false, "hermes.Init not found")
		return
	}
	tag := "GlobalVarsMain.TAG.Index"
	n := 0
	for _, e := range x.Events {
		if e.Kind != "assign" || e.Root != tag {
			continue
		}
		n++
		want := cellP("GlobalVarsMain.ITAG").Sub(PInt(2))
		uncond := len(flattenGuards(e.Guards)) == 0 && len(e.Loops) == 0
		ok := stripVersions(e.Val).Equal(want) && uncond
		r.Ob("start:index", p.Pos(e.Pos), ok, fmt.Sprintf("record index at start = %s, unconditional: %v (must be ITAG − 2 with no floor or cap: the day loop advances it before the first read)", clip(e.Val.String(), 80), uncond))
	}
	if n != 1 {
		r.Ob("start:index", "-", false, fmt.Sprintf("%d definitions of the record index in Init, expected exactly 1", n))
	}
	// the year the weather is loaded for (1900 + J, from the configured start year) must be the calendar year of the
	// first simulated day: anything but an exact match makes every day consume the record of another year
	if run := walked(p, "hermes.HermesSession.Run"); run != nil {
		okY := false
		det := "no error return under 'year of the first day ≠ year counter' in the day loop"
		posY := "-"
		for _, e := range run.Events {
			if e.Kind != "return" || len(e.Loops) == 0 || len(e.Rets) == 0 || isNilPoly(e.Rets[len(e.Rets)-1]) {
				continue
			}
			first := false
			var cmp *Cond
			for _, g := range flattenGuards(e.Guards) {
				if g.Kind != "cmp" {
					continue
				}
				if g.Op == token.EQL && g.P.MentionsRoot("GlobalVarsMain.BEGINN") {
					first = true
				}
				if strings.Contains(g.P.String(), "KalenderDate.0(") && g.P.MentionsRoot("GlobalVarsMain.J") {
					cmp = g
				}
			}
			if !first || cmp == nil {
				continue
			}
			posY = p.Pos(e.Pos)
			// P = ±(1900 + J − year(ZEIT)), Op must be !=
			form := false
			for _, sgn := range []int64{1, -1} {
				q := cmp.P.Scale(ratInt(sgn)).Sub(cellP("GlobalVarsMain.J")).Sub(PInt(1900))
				qs := stripVersions(q)
				if t := qs.single(); t != nil && len(t.M) == 1 && t.C.Cmp(ratInt(-1)) == 0 && strings.HasPrefix(t.M[0].A.Key, "hermes.KalenderDate.0(") {
					form = true
				}
			}
			okY = form && cmp.Op == token.NEQ
			det = fmt.Sprintf("on the first day the run ends with an error under [%s] (must be: calendar year of the first day ≠ 1900 + year counter, an inequality test in one direction lets the other direction through)", cmp.Key())
		}
		r.Ob("start:year-match", posY, okY, det)
	}
	// source of ITAG: first result of the conversion of the start entry's date
	fi := p.Funcs["hermes.Input"]
	if fi == nil {
		r.Ob("start:source", "-", false, "hermes.Input not found")
		return
	}
	info := fi.Pkg.TypesInfo
	m := 0
	ast.Inspect(fi.Decl.Body, func(nd ast.Node) bool {
		as, ok := nd.(*ast.AssignStmt)
		if !ok || len(as.Lhs) != 1 || len(as.Rhs) != 1 {
			return true
		}
		se, ok := as.Lhs[0].(*ast.SelectorExpr)
		if !ok || se.Sel.Name != "ITAG" {
			return true
		}
		m++
		src, isId := as.Rhs[0].(*ast.Ident)
		okSrc := false
		detail := "ITAG is not assigned from a local"
		if isId {
			obj := info.Uses[src]
			nDefs := 0
			ast.Inspect(fi.Decl.Body, func(n2 ast.Node) bool {
				t, ok := n2.(*ast.AssignStmt)
				if !ok {
					return true
				}
				for k, l := range t.Lhs {
					lid, ok := l.(*ast.Ident)
					if !ok || (info.Uses[lid] != obj && info.Defs[lid] != obj) {
						continue
					}
					nDefs++
					if k != 0 || len(t.Lhs) != 2 || len(t.Rhs) != 1 {
						continue
					}
					call, ok := t.Rhs[0].(*ast.CallExpr)
					if !ok {
						continue
					}
					if fs, ok := call.Fun.(*ast.SelectorExpr); ok && fs.Sel.Name == "Datum" {
						okSrc = true
						detail = fmt.Sprintf("ITAG = %s, first result of %s (the second result is stored as %s)", src.Name, types.ExprString(call), types.ExprString(t.Lhs[1]))
					}
				}
				return true
			})
			if nDefs != 1 {
				okSrc = false
				detail += fmt.Sprintf("; %d definitions of %s", nDefs, src.Name)
			}
		}
		r.Ob("start:source", p.Pos(as.Pos()), okSrc, detail)
		return true
	})
	if m == 0 {
		r.Ob("start:source", "-", false, "no assignment of ITAG found in Input")
	}
}

// ---------------------------------------------------------------- R8 sentinel cannot survive

// sentinelFallback: for the series whose sentinel today's normalisation
// removes on every path (sunshine hours, global radiation, precipitation), the
// per-day loop ends with "if X == sentinel { X = 0 }" that depends on nothing
// but the loops and the value itself.  Without it an interior gap of two or
// more days keeps the sentinel (e.g. −99.9 h of sunshine), which the radiation
// estimate turns into a negative potential evapotranspiration.
func sentinelFallback(p *Prog, r *Report, rule string) {
	r.Rule(rule, "missing-value sentinels cannot reach the model in sunshine hours, global radiation and precipitation: the normalisation ends, for every day of every loaded year, with an unconditional 'if value == sentinel { value = 0 }' of the same cell", 3)
	x := walked(p, "hermes.WeatherDataShared.replaceMissingValues")
	if x == nil {
		r.Ob("replaceMissingValues", "-", false, "replaceMissingValues not found")
		return
	}
	for _, root := range []string{"SUND", "RADI", "REG"} {
		found := false
		pos := "-"
		for _, e := range x.Events {
			if e.Kind != "assign" || len(e.Idx) != 2 || len(e.Loops) != 2 || !e.Val.IsZero() || !strings.HasSuffix(e.Root, "."+root) && e.Root != "s."+root {
				continue
			}
			if !e.Idx[0].Equal(PAtom(e.Loops[0].Var)) || !e.Idx[1].Equal(PAtom(e.Loops[1].Var)) {
				continue
			}
			var non []*Cond
			for _, g := range flattenGuards(e.Guards) {
				if !g.Loop {
					non = append(non, g)
				}
			}
			if len(non) != 1 || non[0].Kind != "cmp" || non[0].Op != token.EQL {
				continue
			}
			// sentinel − X[y][index] == 0 on the cell being stored
			d := stripVersions(non[0].P)
			want := pVar("noneValue").Sub(stripVersions(e.Old))
			if d.Equal(want) || d.Equal(want.Neg()) {
				found = true
				pos = p.Pos(e.Pos)
			}
		}
		r.Ob("fallback:"+root, pos, found, fmt.Sprintf("%s[y][day]: final fallback 'sentinel → 0' that depends only on the value itself: %v", root, found))
	}
	r.Note("mean air temperature and saturation deficit have no such fallback on this tree: two consecutive missing days keep the sentinel (observation, not claimed)")
}

// ---------------------------------------------------------------- R2c gaps at a year end, coverage of the period

// c04Carried: the day counter of the date-keyed readers restarts at 1 on a
// record dated 1 January, so days missing BEFORE that record (the end of a
// year, or whole years) are invisible to the counter test.  The gap test must
// therefore also depend on something carried over from the previous record
// that is never reset: the previous record's date.  And nothing in a reader
// knows how far the file has to reach: that is the "covers" obligation.
var carriedDate = map[string]bool{}

func c04Carried(p *Prog, r *Report, rule string, withCoverage bool) {
	r.Rule(rule, "gaps at a year end and coverage: in the date-keyed readers the test that rejects a gap also compares the record with a value carried from the previous record that is assigned from the record's date in every iteration and never reset (the day counter restarts on 1 January and cannot see days missing before it); every reader checks after its read loop that the data reach as far as they are needed", 2)
	for _, key := range []string{"hermes.ReadWeatherCSV", "hermes.ReadWeatherCZ", "hermes.WetterK"} {
		fi := p.Funcs[key]
		if fi == nil {
			r.Ob(short(key), "-", false, "reader not found")
			continue
		}
		info := fi.Pkg.TypesInfo
		var loop *ast.ForStmt
		ast.Inspect(fi.Decl.Body, func(n ast.Node) bool {
			if fs, ok := n.(*ast.ForStmt); ok && loop == nil && fs.Cond != nil {
				scan := false
				ast.Inspect(fs.Cond, func(m ast.Node) bool {
					if se, ok := m.(*ast.SelectorExpr); ok && se.Sel.Name == "Scan" {
						scan = true
					}
					return true
				})
				if scan {
					loop = fs
				}
			}
			return true
		})
		if loop == nil {
			r.Ob(short(key)+":loop", p.Pos(fi.Decl.Pos()), false, "scanner-driven read loop not found")
			continue
		}
		returnsErr := func(b *ast.BlockStmt) bool {
			found := false
			for _, s := range b.List {
				if rs, ok := s.(*ast.ReturnStmt); ok && len(rs.Results) > 0 {
					if id, ok := rs.Results[len(rs.Results)-1].(*ast.Ident); !ok || id.Name != "nil" {
						found = true
					}
				}
			}
			return found
		}
		if key != "hermes.WetterK" {
			// the gap test: an if in the loop body (top level) that returns an error and mentions the counter T
			carried := false
			detail := "gap test not found"
			for _, s := range loop.Body.List {
				ifs, ok := s.(*ast.IfStmt)
				if !ok || !returnsErr(ifs.Body) {
					continue
				}
				mentionsT := false
				var cands []types.Object
				ast.Inspect(ifs.Cond, func(m ast.Node) bool {
					if id, ok := m.(*ast.Ident); ok {
						if o := info.Uses[id]; o != nil {
							if id.Name == "T" {
								mentionsT = true
							}
							if v, ok := o.(*types.Var); ok && !v.IsField() && o.Pos() < loop.Pos() && o.Pos() > fi.Decl.Pos() {
								cands = append(cands, o)
							}
						}
					}
					return true
				})
				if !mentionsT {
					continue
				}
				detail = "the gap test depends only on the day counter, which restarts on 1 January: a record dated 1 January is accepted whatever came before it (30 November, or the 1 January of two years earlier)"
				for _, o := range cands {
					nAs, okAll := 0, true
					ast.Inspect(loop.Body, func(m ast.Node) bool {
						as, ok := m.(*ast.AssignStmt)
						if !ok {
							return true
						}
						for k, l := range as.Lhs {
							lid, ok := l.(*ast.Ident)
							if !ok || info.Uses[lid] != o || k >= len(as.Rhs) {
								continue
							}
							nAs++
							fromDate := false
							ast.Inspect(as.Rhs[k], func(q ast.Node) bool {
								if se, ok := q.(*ast.SelectorExpr); ok && se.Sel.Name == "datetime" {
									fromDate = true
								}
								return true
							})
							if !fromDate {
								okAll = false
							}
						}
						return true
					})
					if nAs > 0 && okAll {
						carried = true
						detail = fmt.Sprintf("the gap test also compares the record with %s, which every iteration assigns from the record's date and nothing resets", o.Name())
					}
				}
			}
			carriedDate[key] = carried
			r.Ob(short(key)+":carried-date", p.Pos(loop.Pos()), carried, detail)
		}
		// coverage: an error return between the end of the read loop and the normalisation
		covers := false
		after := false
		for _, s := range fi.Decl.Body.List {
			if s == ast.Stmt(loop) {
				after = true
				continue
			}
			if !after {
				continue
			}
			if ifs, ok := s.(*ast.IfStmt); ok && returnsErr(ifs.Body) {
				covers = true
			}
		}
		if !withCoverage {
			continue
		}
		// start coverage: a reader that positions its day counter from the first record's date (so a file may begin
		// in mid-year) leaves the days before that record without data.  Either the reader itself rejects a first
		// record later than the first simulated day, or it hands the first covered day to the run routine, which
		// compares it with the start day and ends the run before the model is initialised.
		if pos, fld := c04FirstRecordPositioning(info, loop); pos != nil {
			okStart, det := false, "the day counter is positioned from the first record's date, the days before it hold no data, and nothing compares that day with the first simulated day: a file that begins after the simulation start is accepted and the days before its first record are simulated with all-zero weather"
			if fld != "" {
				if where := c04RunRejectsLateStart(p, fld); where != "" {
					okStart, det = true, fmt.Sprintf("the first covered day is handed over in %s and the run routine ends the run when it lies after the first simulated day (%s), before the model is initialised", fld, where)
				} else {
					det = fmt.Sprintf("the first covered day is stored in %s but the run routine does not compare it with the start day before initialising the model", fld)
				}
			}
			r.Ob(short(key)+":covers-start", p.Pos(pos.Pos()), okStart, det)
		}
		r.Ob(short(key)+":covers", p.Pos(loop.End()), covers, fmt.Sprintf("after the read loop the reader rejects data that end before they are needed (end of the year file / end of the simulation): %v — otherwise the year length becomes the last day read, the day loop turns to the next year early and every later day is driven by another date's record", covers))
	}
}

// c04FirstRecordPositioning finds, in a read loop, "if first { …; T = <record>.YearDay(); … }" and returns that
// assignment plus the name of a field of the shared weather record that the same block assigns from the counter or
// from the record's day of the year ("" when there is none).
func c04FirstRecordPositioning(info *types.Info, loop *ast.ForStmt) (ast.Node, string) {
	var pos ast.Node
	fld := ""
	ast.Inspect(loop.Body, func(n ast.Node) bool {
		ifs, ok := n.(*ast.IfStmt)
		if !ok {
			return true
		}
		id, ok := ifs.Cond.(*ast.Ident)
		if !ok {
			return true
		}
		if b, isB := info.TypeOf(id).Underlying().(*types.Basic); !isB || b.Kind() != types.Bool {
			return true
		}
		yearDay := func(e ast.Expr) bool {
			f := false
			ast.Inspect(e, func(m ast.Node) bool {
				if c, ok := m.(*ast.CallExpr); ok {
					if se, ok := c.Fun.(*ast.SelectorExpr); ok && se.Sel.Name == "YearDay" {
						f = true
					}
				}
				return true
			})
			return f
		}
		var counter types.Object
		for _, st := range ifs.Body.List {
			as, ok := st.(*ast.AssignStmt)
			if !ok || len(as.Lhs) != 1 || len(as.Rhs) != 1 {
				continue
			}
			if l, ok := as.Lhs[0].(*ast.Ident); ok && yearDay(as.Rhs[0]) {
				counter = info.Uses[l]
				pos = as
			}
		}
		if counter == nil {
			return true
		}
		for _, st := range ifs.Body.List {
			as, ok := st.(*ast.AssignStmt)
			if !ok || len(as.Lhs) != 1 || len(as.Rhs) != 1 {
				continue
			}
			se, ok := as.Lhs[0].(*ast.SelectorExpr)
			if !ok {
				continue
			}
			sel, ok := info.Selections[se]
			if !ok || sel.Kind() != types.FieldVal {
				continue
			}
			fromCounter := yearDay(as.Rhs[0])
			if r, ok := as.Rhs[0].(*ast.Ident); ok && info.Uses[r] == counter {
				fromCounter = true
			}
			if fromCounter {
				name, _ := namedStruct(sel.Recv())
				fld = name + "." + se.Sel.Name
			}
		}
		return true
	})
	return pos, fld
}

// c04RunRejectsLateStart: in the run routine, before the call of Init, "if <x>.<fld> > g.ITAG { return …error }"
// (either orientation).  Returns the position, "" when absent.
func c04RunRejectsLateStart(p *Prog, fld string) string {
	fi := p.Funcs["hermes.HermesSession.Run"]
	if fi == nil {
		return ""
	}
	info := fi.Pkg.TypesInfo
	fieldName := func(e ast.Expr) string {
		se, ok := e.(*ast.SelectorExpr)
		if !ok {
			return ""
		}
		sel, ok := info.Selections[se]
		if !ok || sel.Kind() != types.FieldVal {
			return ""
		}
		name, _ := namedStruct(sel.Recv())
		return name + "." + se.Sel.Name
	}
	var initPos token.Pos
	ast.Inspect(fi.Decl.Body, func(n ast.Node) bool {
		if c, ok := n.(*ast.CallExpr); ok && initPos == 0 {
			if id, ok := c.Fun.(*ast.Ident); ok {
				if f, ok := info.Uses[id].(*types.Func); ok && f.Name() == "Init" && f.Pkg() != nil && f.Pkg().Name() == "hermes" {
					initPos = c.Pos()
				}
			}
		}
		return true
	})
	where := ""
	ast.Inspect(fi.Decl.Body, func(n ast.Node) bool {
		ifs, ok := n.(*ast.IfStmt)
		if !ok || ifs.Init != nil || (initPos != 0 && ifs.Pos() > initPos) {
			return true
		}
		be, ok := ifs.Cond.(*ast.BinaryExpr)
		if !ok {
			return true
		}
		l, rr := fieldName(be.X), fieldName(be.Y)
		late := (l == fld && rr == "GlobalVarsMain.ITAG" && be.Op == token.GTR) || (l == "GlobalVarsMain.ITAG" && rr == fld && be.Op == token.LSS)
		if !late || len(ifs.Body.List) == 0 {
			return true
		}
		if rs, ok := ifs.Body.List[len(ifs.Body.List)-1].(*ast.ReturnStmt); ok && len(rs.Results) > 0 {
			if id, ok := rs.Results[len(rs.Results)-1].(*ast.Ident); !ok || id.Name != "nil" {
				// unconditional apart from the enclosing weather-format independent blocks: accept any nesting that
				// does not mention the weather format
				conds, _ := astPathConds(info, fi.Decl.Body, ifs)
				for _, c := range conds {
					if strings.Contains(types.ExprString(c.E), "WeatherFileFormat") {
						return true
					}
				}
				where = p.Pos(ifs.Pos())
			}
		}
		return true
	})
	return where
}

// disjuncts flattens nested "or".
func disjuncts(c *Cond) []*Cond {
	if c.Kind == "or" {
		var out []*Cond
		for _, s := range c.Sub {
			out = append(out, disjuncts(s)...)
		}
		return out
	}
	return []*Cond{c}
}

// ---------------------------------------------------------------- R9 today's record everywhere

// c04TodayIndex: the per-year weather arrays are indexed by the 0-based day of
// year; every read of them on the run path must use today's index (the
// counter of R6), apart from the listed exceptions.
var weatherIndexExceptions = map[string]string{
	"hermes.Init|ITAG - 1":                   "start temperature of the soil profile: the record of the start day, before the day loop has set the counter",
	"hermes.HermesSession.Run|TAG.Index + 1": "automatic irrigation looks at the rain forecast of the next two days",
	"hermes.HermesSession.Run|TAG.Index + 2": "automatic irrigation looks at the rain forecast of the next two days",
	"hermes.HermesSession.Run|TAG.Index - I": "automatic sowing: sliding mean temperature over the preceding days",
	"hermes.HermesSession.Run|TAG.Index - 1": "automatic sowing: no heavy rain on the preceding day (guarded for the first day of the year)",
	"hermes.Nitro|TAG.Index - 1":             "automatic fertilisation trigger: temperature sum of five days, rain of today and yesterday",
	"hermes.Nitro|TAG.Index - 2":             "automatic fertilisation trigger: temperature sum of five days",
	"hermes.Nitro|TAG.Index - 3":             "automatic fertilisation trigger: temperature sum of five days",
	"hermes.Nitro|TAG.Index - 4":             "automatic fertilisation trigger: temperature sum of five days",
	"hermes.Nitro|TAG.Index + 1":             "automatic fertilisation trigger: rain forecast of tomorrow",
	"hermes.PhytoOut|TAG.Index - 1":          "automatic harvest trigger: rain sum of four days",
	"hermes.PhytoOut|TAG.Index - 2":          "automatic harvest trigger: rain sum of four days",
	"hermes.PhytoOut|TAG.Index - 3":          "automatic harvest trigger: rain sum of four days",
}

func c04TodayIndex(p *Prog, r *Report) {
	r.Rule("C04.R9", "today's record everywhere: every read of a per-day weather array (the arrays LoadYear fills) in the hermes package uses the day counter of the day loop as index; the exceptions (start day in Init; forecast and look-back windows of the automatic sowing, harvest, fertilisation and irrigation triggers) are listed with a reason", 200)
	ly := p.Funcs["hermes.LoadYear"]
	if ly == nil {
		r.Ob("LoadYear", "-", false, "hermes.LoadYear not found")
		return
	}
	// the weather arrays: fields of GlobalVarsMain stored at [loop variable] in LoadYear
	arrays := map[string]bool{}
	linfo := ly.Pkg.TypesInfo
	ast.Inspect(ly.Decl.Body, func(n ast.Node) bool {
		as, ok := n.(*ast.AssignStmt)
		if !ok {
			return true
		}
		for _, l := range as.Lhs {
			if ie, ok := l.(*ast.IndexExpr); ok {
				if se, ok := ie.X.(*ast.SelectorExpr); ok {
					if nm, _ := namedStruct(linfo.TypeOf(se.X)); nm == "GlobalVarsMain" {
						if _, isId := ie.Index.(*ast.Ident); isId {
							arrays[se.Sel.Name] = true
						}
					}
				}
			}
		}
		return true
	})
	if len(arrays) < 8 {
		r.Ob("arrays", p.Pos(ly.Decl.Pos()), false, fmt.Sprintf("only %d per-day arrays recognised in LoadYear", len(arrays)))
		return
	}
	skip := map[string]bool{"hermes.LoadYear": true}
	n := 0
	for _, key := range sortedFuncKeys(p) {
		fi := p.Funcs[key]
		if fi.Pkg != p.Hermes || skip[key] {
			continue
		}
		info := fi.Pkg.TypesInfo
		// left-hand sides are stores, not reads
		lhs := map[ast.Expr]bool{}
		ast.Inspect(fi.Decl.Body, func(nd ast.Node) bool {
			if as, ok := nd.(*ast.AssignStmt); ok {
				for _, l := range as.Lhs {
					lhs[l] = true
				}
			}
			return true
		})
		ast.Inspect(fi.Decl.Body, func(nd ast.Node) bool {
			ie, ok := nd.(*ast.IndexExpr)
			if !ok || lhs[ie] {
				return true
			}
			se, ok := ie.X.(*ast.SelectorExpr)
			if !ok || !arrays[se.Sel.Name] {
				return true
			}
			if nm, _ := namedStruct(info.TypeOf(se.X)); nm != "GlobalVarsMain" {
				return true
			}
			n++
			// normalise the index: drop the receiver of GlobalVarsMain selections
			idx := types.ExprString(ie.Index)
			if recv := types.ExprString(se.X); recv != "" {
				idx = strings.ReplaceAll(idx, recv+".", "")
			}
			idx = strings.ReplaceAll(idx, "+", " + ")
			idx = strings.ReplaceAll(idx, "-", " - ")
			idx = strings.Join(strings.Fields(idx), " ")
			okI := idx == "TAG.Index"
			why := "index is the day counter"
			if !okI {
				if reason, has := weatherIndexExceptions[key+"|"+idx]; has {
					okI, why = true, "listed exception: "+reason
				} else {
					why = "read at index " + idx + ", which is neither today's day counter nor a listed exception: the model consumes another date's record"
				}
			}
			r.Ob("read:"+shortKey(key)+":"+se.Sel.Name+"["+idx+"]", p.Pos(ie.Pos()), okI, why)
			return true
		})
	}
	if n == 0 {
		r.Ob("reads", "-", false, "no read of a per-day weather array found")
	}
}

// c04CorrArms: the thresholds alone do not say which month's factor an arm returns.  Demanded: the month lookup is an
// if / else-if chain on the day parameter with ascending constant thresholds, arm i stores element i of the receiver
// table into the result, the final else stores element (number of thresholds), and the stored variable is returned.
func c04CorrArms(p *Prog, r *Report, fi *FuncInfo, dayP types.Object) {
	info := fi.Pkg.TypesInfo
	var chain *ast.IfStmt
	for _, st := range fi.Decl.Body.List {
		if ifs, ok := st.(*ast.IfStmt); ok && ifs.Else != nil {
			chain = ifs
		}
	}
	if chain == nil || dayP == nil {
		r.Ob("corr-table:arms", p.Pos(fi.Decl.Pos()), false, "no if / else-if chain on the day of the year found")
		return
	}
	var recv types.Object
	if fi.Decl.Recv != nil && len(fi.Decl.Recv.List) == 1 && len(fi.Decl.Recv.List[0].Names) == 1 {
		recv = info.Defs[fi.Decl.Recv.List[0].Names[0]]
	}
	var res types.Object
	store := func(b *ast.BlockStmt) (int64, bool) {
		if b == nil || len(b.List) != 1 {
			return 0, false
		}
		as, ok := b.List[0].(*ast.AssignStmt)
		if !ok || as.Tok != token.ASSIGN || len(as.Lhs) != 1 || len(as.Rhs) != 1 {
			return 0, false
		}
		ix, ok := stripParens(as.Rhs[0]).(*ast.IndexExpr)
		if !ok || recv == nil || useObj(info, ix.X) != recv {
			return 0, false
		}
		o := useObj(info, as.Lhs[0])
		if o == nil || (res != nil && o != res) {
			return 0, false
		}
		res = o
		return exprInt64(info, ix.Index)
	}
	ok, det := true, ""
	var thr, idx []int64
	cur := chain
	for cur != nil && ok {
		be, isB := stripParens(cur.Cond).(*ast.BinaryExpr)
		if !isB || be.Op != token.LSS || useObj(info, be.X) != dayP {
			ok, det = false, "a condition of the chain is not 'day < constant': "+types.ExprString(cur.Cond)
			break
		}
		c, isC := exprInt64(info, be.Y)
		k, isK := store(cur.Body)
		if !isC || !isK {
			ok, det = false, "an arm is not 'result = table[constant]' under a constant threshold: "+types.ExprString(cur.Cond)
			break
		}
		thr, idx = append(thr, c), append(idx, k)
		switch e := cur.Else.(type) {
		case *ast.IfStmt:
			cur = e
		case *ast.BlockStmt:
			k, isK := store(e)
			if !isK {
				ok, det = false, "the final else is not 'result = table[constant]'"
			}
			idx = append(idx, k)
			cur = nil
		default:
			ok, det = false, "the chain has no final else: days of the last month get no factor"
			cur = nil
		}
	}
	for i := 0; ok && i < len(idx); i++ {
		if idx[i] != int64(i) {
			ok, det = false, fmt.Sprintf("arm %d (month %d) stores element %d of the table", i, i+1, idx[i])
		}
		if i > 0 && i < len(thr) && thr[i] <= thr[i-1] {
			ok, det = false, fmt.Sprintf("thresholds not ascending along the chain: %v", thr)
		}
	}
	if ok {
		returned := false
		ast.Inspect(fi.Decl.Body, func(n ast.Node) bool {
			if rs, isR := n.(*ast.ReturnStmt); isR && len(rs.Results) == 1 && useObj(info, rs.Results[0]) == res {
				returned = true
			}
			return true
		})
		if !returned {
			ok, det = false, "the stored factor is not what the lookup returns"
		}
	}
	if ok {
		det = fmt.Sprintf("chain thresholds %v, arms store elements %v in order, result returned", thr, idx)
	}
	r.Ob("corr-table:arms", p.Pos(chain.Pos()), ok, det)
}
