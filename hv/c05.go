package main

// C05 — output records: one per day / year / harvested crop, complete.
// Structural conditions on where and under which conditions the three record
// writers are called, on the day variable, the annual output day, the crop
// record typestate in Nitro, and the field-per-column agreement of WriteLine.

import (
	"fmt"
	"go/ast"
	"go/token"
	"go/types"
	"sort"
	"strings"
)

func init() { register("C05", checkC05) }

func checkC05(p *Prog, r *Report) {
	c05Writes(p, r)
	c05DayVar(p, r)
	c05AnnualDay(p, r)
	c05CropFlag(p, r)
	c05Columns(p, r)
	c05Render(p, r)
	c05EndWriters(p, r)
	// the yearly record is written when day-of-year counter + 1 equals the configured day: the counter must
	// start in lock-step with the calendar (shared with C04.R7)
	c04StartOffset(p, r, "C05.R7")
	c05FreshFiles(p, r)
	sessionOpenRule(p, r, "C05.R9")
	recordValueRule(p, r, "C05.R11")
	// one crop record per rotation entry needs every rotation entry of the field to be read (shared with C10.R14)
	readersAllLines(p, r, "C05.R12")
	// the output configuration a run writes its records through (columns bound to this run's state by reflection) is
	// built by the run itself: nothing parsed or bound is kept in the session and handed to another run (shared with
	// C03.R2b / C11.R5)
	c03Session(p, r, p.SSA(), "C05.R10")
	// consecutive dates with correct leap days rest on the date arithmetic (shared with C12.R1/R2)
	c12Tables(p, r, "C05.R5a")
	c12Leap(p, r, "C05.R5b")
	c12LeapThreshold(p, r)
	c12InverseDayOfYear(p, r)
	c12Formats(p, r, "C05.R5c")
	c12Century(p, r)
	// the crop record is written when the harvest branch fires; a crop whose harvest date is never set gets no
	// record and blocks the records of all later rotation entries (shared with C16.R3)
	c16Harvest(p, r, "C05.R6")
}

// outputRoles maps the OutputConfig variables of the run closure to the
// configuration file they were loaded from (HFilePath field name).
func outputRoles(p *Prog, x *Exec, lit *ast.FuncLit) map[types.Object]string {
	roles := map[types.Object]string{}
	ast.Inspect(lit.Body, func(n ast.Node) bool {
		as, ok := n.(*ast.AssignStmt)
		if !ok || len(as.Rhs) != 1 || len(as.Lhs) < 1 {
			return true
		}
		call, ok := as.Rhs[0].(*ast.CallExpr)
		if !ok {
			return true
		}
		f := callee(x.Info, call)
		if f == nil || f.Name() != "LoadHermesOutputConfig" || len(call.Args) < 1 {
			return true
		}
		id, ok := as.Lhs[0].(*ast.Ident)
		if !ok {
			return true
		}
		obj := x.Info.Uses[id]
		if obj == nil {
			obj = x.Info.Defs[id]
		}
		if obj != nil {
			roles[obj] = fieldOf(x.Info, call.Args[0])
		}
		return true
	})
	return roles
}

func recvObj(info *types.Info, call *ast.CallExpr) types.Object {
	se, ok := call.Fun.(*ast.SelectorExpr)
	if !ok {
		return nil
	}
	id, ok := se.X.(*ast.Ident)
	if !ok {
		return nil
	}
	return info.Uses[id]
}

// inLoopGuards returns the non-loop-header guards of e that were added after
// entering loop L.
func inLoopGuards(e *Event, L *LoopCtx) []*Cond {
	base := map[string]int{}
	if L.Entry != nil {
		for _, g := range flattenGuards(L.Entry.guards) {
			base[g.Key()]++
		}
	}
	var out []*Cond
	for _, g := range flattenGuards(e.Guards) {
		if g.Loop {
			continue
		}
		if base[g.Key()] > 0 {
			base[g.Key()]--
			continue
		}
		out = append(out, g)
	}
	return out
}

func c05Writes(p *Prog, r *Report) {
	r.Rule("C05.R1", "record writers: the daily record is written once per day-loop iteration, outside the sub-step loop, exactly under (interval > 0 ∧ day mod interval == 0); the yearly record once per iteration exactly under (day of year == annual output day); each configuration has exactly one record write", 3)
	fi, lit := runClosure(p)
	x := walked(p, "hermes.HermesSession.Run")
	if fi == nil || x == nil {
		r.Ob("run", "-", false, "run closure not found")
		return
	}
	day := dayLoop(x)
	if day == nil {
		r.Ob("day-loop", "-", false, "day loop not found")
		return
	}
	roles := outputRoles(p, x, lit)
	byRole := map[string][]*Event{}
	for _, e := range x.Events {
		if e.Kind == "call" && e.Name == "hermes.OutputConfig.WriteLine" && e.Call != nil {
			role := roles[recvObj(x.Info, e.Call)]
			if role == "" {
				role = "?"
			}
			byRole[role] = append(byRole[role], e)
		}
	}
	if es := byRole["?"]; len(es) > 0 {
		for _, e := range es {
			r.Ob("write:unknown-config", p.Pos(e.Pos), false, "record write on an output configuration whose origin is not recognised")
		}
	}
	zeit := PAtom(day.Var)
	// daily
	{
		es := byRole["dailyOutput"]
		if len(es) != 1 {
			r.Ob("daily:write", "-", false, fmt.Sprintf("%d daily record writes, exactly one was confirmed", len(es)))
		} else {
			e := es[0]
			ok := innermost(e, day)
			det := ""
			if !ok {
				det = "not directly in the day loop (inside another loop: the record would be written several times or not on every day)"
			}
			gs := inLoopGuards(e, day)
			var haveInt, haveMod bool
			var extra []string
			var interval Poly
			for _, g := range gs {
				if g.Kind == "cmp" && g.Op == token.EQL {
					// mod(ZEIT, k) == 0
					t := g.P.single()
					if t != nil && len(t.M) == 1 && t.M[0].A.Kind == "call" && t.M[0].A.Fn == "mod" && len(t.M[0].A.Args) == 2 && t.M[0].A.Args[0].Equal(zeit) {
						haveMod = true
						interval = t.M[0].A.Args[1]
						continue
					}
				}
				extra = append(extra, g.Key())
			}
			var extra2 []string
			for _, k := range extra {
				if haveMod && k == mkCmp(interval, PZero(), token.GTR, nil).Key() {
					haveInt = true
					continue
				}
				extra2 = append(extra2, k)
			}
			if !haveMod || !haveInt {
				ok = false
				det += fmt.Sprintf("; expected guards interval > 0 and day mod interval == 0 (found mod: %v, interval>0: %v)", haveMod, haveInt)
			}
			if len(extra2) > 0 {
				ok = false
				det += "; the write also depends on {" + strings.Join(extra2, " ; ") + "}: days on which it fails get no record"
			}
			if haveMod {
				// the interval is the configured output interval
				okI := false
				interval.walkAtoms(func(a *Atom) {
					if strings.HasSuffix(a.Root, "OutputIntervall") || strings.HasSuffix(a.Key, "OutputIntervall") {
						okI = true
					}
				})
				if !okI || len(interval.T) != 1 {
					ok = false
					det += "; the modulus " + interval.String() + " is not the configured output interval"
				}
			}
			r.Ob("daily:write", p.Pos(e.Pos), ok, "daily record: in day loop; guards {"+guardKeysOf(gs)+"}"+det)
		}
	}
	// yearly
	{
		es := byRole["yearlyOutput"]
		if len(es) != 1 {
			r.Ob("yearly:write", "-", false, fmt.Sprintf("%d yearly record writes, exactly one was confirmed", len(es)))
		} else {
			e := es[0]
			ok := innermost(e, day)
			det := ""
			if !ok {
				det = "not directly in the day loop"
			}
			gs := inLoopGuards(e, day)
			// exactly: month(today) == month(annual date) ∧ day(today) == day(annual date), both through the inverse date conversion
			parts := map[string]bool{}
			var ref Poly
			refSet := false
			if len(gs) != 2 {
				ok = false
				det += "; expected exactly the two guards month == month of the annual date and day == day of the annual date"
			}
			for _, g := range gs {
				if g.Kind != "cmp" || g.Op != token.EQL {
					ok = false
					det += "; guard " + g.Key() + " is not an equality"
					continue
				}
				P := stripVersions(g.P)
				var today, annual *Atom
				for _, t := range P.T {
					if len(t.M) != 1 || t.M[0].E != 1 || !strings.HasPrefix(t.M[0].A.Fn, "hermes.KalenderDate.") || len(t.M[0].A.Args) != 1 {
						continue
					}
					arg := t.M[0].A.Args[0]
					if at := arg.single(); at != nil && len(at.M) == 1 && day.Var != nil && at.M[0].A.Root == day.Var.Root {
						today = t.M[0].A
					} else {
						annual = t.M[0].A
					}
				}
				if today == nil || annual == nil || len(P.T) != 2 || today.Fn != annual.Fn {
					ok = false
					det += "; guard " + g.Key() + " does not compare the same calendar field of today (the day loop's day number) and of the annual date"
					continue
				}
				parts[strings.TrimPrefix(today.Fn, "hermes.KalenderDate.")] = true
				if !refSet {
					ref, refSet = annual.Args[0], true
				} else if !ref.Equal(annual.Args[0]) {
					ok = false
					det += "; month and day are taken from two different dates"
				}
			}
			if !(parts["1"] && parts["2"]) {
				ok = false
				det += "; month and day of the month must both be compared (a day-of-year number differs between leap and common years)"
			}
			r.Ob("yearly:write", p.Pos(e.Pos), ok, "yearly record: guards {"+guardKeysOf(gs)+"}"+det)
		}
	}
	// crop: exactly one write
	{
		es := byRole["cropOutput"]
		r.Ob("crop:write", func() string {
			if len(es) > 0 {
				return p.Pos(es[0].Pos)
			}
			return "-"
		}(), len(es) == 1, fmt.Sprintf("%d crop record write(s) in Run, exactly one confirmed (decision rule: C05.R2)", len(es)))
	}
}

// ---------------------------------------------------------------- day variable

func c05DayVar(p *Prog, r *Report) {
	r.Rule("C05.R1b", "day variable: starts at the simulation start, advances by exactly one day once per iteration, and the loop runs up to and including the end date; the date text of the records is the conversion of the day variable, set unconditionally before the writers", 4)
	x := walked(p, "hermes.HermesSession.Run")
	if x == nil {
		return
	}
	day := dayLoop(x)
	if day == nil {
		r.Ob("day-loop", "-", false, "day loop not found")
		return
	}
	pos := p.Pos(day.Stmt.Pos())
	r.Ob("start", pos, stripVersions(day.Lo).Equal(cellP("GlobalVarsMain.BEGINN")), "day variable starts at "+day.Lo.String())
	// step
	n := 0
	okStep := true
	det := ""
	for _, e := range x.Events {
		if e.Kind == "assign" && e.Local == day.VarObj && e.InLoop(day) {
			n++
			d := stripVersions(e.Val.Sub(e.Old))
			det += "Δ = " + d.String() + " "
			if !d.Equal(PInt(1)) && !d.Equal(cellP("GlobalVarsMain.DT.Index")) {
				okStep = false
			}
			if !innermost(e, day) {
				okStep = false
				det += "(inside an inner loop) "
			}
			if len(inLoopGuardsNoBreak(e, day)) > 0 {
				okStep = false
				det += "(conditional) "
			}
		}
	}
	// DT ≡ 1: writers of DT only set index 1
	if okStep && strings.Contains(det, "DT.Index") {
		for _, a := range p.Fields().WriteSites(FieldRef{"GlobalVarsMain", "DT"}) {
			if a.Fn.Key != "hermes.NewGlobalVarsMain" && a.Fn.Key != "hermes.Input" && !strings.HasPrefix(a.Fn.Key, "hermes.NewDefault") {
				okStep = false
				det += "; DT is written in " + a.Fn.Key
			}
		}
	}
	r.Ob("step", pos, okStep && n == 1, fmt.Sprintf("%d advance(s) of the day variable per iteration: %s(the step DT is one day: C01.R1)", n, det))
	// the date a record carries is today's: the date text is set once per iteration, unconditionally, from the
	// calendar conversion of the day variable, before the record writers
	{
		okD, detD, posD := false, "the date text of the records is not set in the day loop", pos
		allFromDay := true
		firstWrite := 1 << 30
		for _, e := range x.Events {
			if e.Kind == "call" && e.Name == "hermes.OutputConfig.WriteLine" && e.InLoop(day) && e.Seq < firstWrite {
				firstWrite = e.Seq
			}
		}
		for _, e := range x.Events {
			if e.Kind != "assign" || e.Root != "GlobalVarsMain.AKTUELL" || !e.InLoop(day) {
				continue
			}
			posD = p.Pos(e.Pos)
			fromDay := false
			if as, ok := e.Stmt.(*ast.AssignStmt); ok && len(as.Rhs) == 1 {
				if c, ok := as.Rhs[0].(*ast.CallExpr); ok && len(c.Args) == 1 && strings.HasSuffix(types.ExprString(c.Fun), ".Kalender") {
					if id, ok := c.Args[0].(*ast.Ident); ok && x.Info.Uses[id] == day.VarObj {
						fromDay = true
					}
				}
			}
			uncond := innermost(e, day) && len(inLoopGuardsNoBreak(e, day)) == 0
			if !fromDay {
				allFromDay = false
			}
			if okD {
				continue // an earlier store already establishes it; later ones only have to be conversions of the day variable too
			}
			okD = fromDay && uncond && e.Seq < firstWrite
			detD = fmt.Sprintf("date text = calendar conversion of the day variable: %v, once per iteration and unconditional: %v, before the first record writer: %v", fromDay, uncond, e.Seq < firstWrite)
		}
		r.Ob("date-text", posD, okD && allFromDay, detD+fmt.Sprintf("; every store of the date text in the loop is such a conversion: %v", allFromDay))
	}
	// inclusive end
	okEnd := false
	endDet := "header " + day.Cond.Key()
	if day.Cond != nil && day.Cond.Kind == "cmp" {
		P := stripVersions(day.Cond.P)
		ende := cellP("GlobalVarsMain.ENDE")
		v := PAtom(day.Var)
		if (P.Equal(ende.Sub(v)) && day.Cond.Op == token.GEQ) || (P.Equal(v.Sub(ende)) && day.Cond.Op == token.LEQ) {
			okEnd = true
		}
	}
	r.Ob("end-inclusive", pos, okEnd, endDet+": the end date itself must be simulated and written (day <= end)")
}

// inLoopGuardsNoBreak: in-loop guards except negations of break/return conditions at the loop's end.
func inLoopGuardsNoBreak(e *Event, L *LoopCtx) []*Cond {
	var out []*Cond
	for _, g := range inLoopGuards(e, L) {
		// the trailing "if ZEIT == ENDE { break }" leaves ZEIT != ENDE on the post statement
		if g.Kind == "cmp" && g.Op == token.NEQ && g.P.MentionsRoot("GlobalVarsMain.ENDE") && L.Var != nil && g.P.MentionsAtom(L.Var) {
			continue
		}
		out = append(out, g)
	}
	return out
}

// ---------------------------------------------------------------- annual output day

func c05AnnualDay(p *Prog, r *Report) {
	r.Rule("C05.R1c", "the date the yearly record is written on is the configured annual output date: the day number whose month and day the yearly test uses is the absolute-day result of the date conversion applied to the configured annual date text completed by the year part of the end date, defined once before the day loop", 1)
	fi, lit := runClosure(p)
	if fi == nil || lit == nil {
		r.Ob("annual-date", "-", false, "run closure not found")
		return
	}
	info := fi.Pkg.TypesInfo
	// month/day variables of the annual date: results 1 and 2 of KalenderDate(X) outside every loop
	var xObj types.Object
	var pos token.Pos
	ast.Inspect(lit.Body, func(n ast.Node) bool {
		as, ok := n.(*ast.AssignStmt)
		if !ok || len(as.Lhs) != 3 || len(as.Rhs) != 1 {
			return true
		}
		c, ok := as.Rhs[0].(*ast.CallExpr)
		if !ok || len(c.Args) != 1 {
			return true
		}
		if f := callee(info, c); f == nil || f.Name() != "KalenderDate" {
			return true
		}
		_, loops := astPathConds(info, lit.Body, as)
		blank := func(e ast.Expr) bool { id, ok := e.(*ast.Ident); return ok && id.Name == "_" }
		if blank(as.Lhs[1]) || blank(as.Lhs[2]) {
			return true
		}
		if len(loops) == 0 {
			xObj = useObj(info, c.Args[0])
			pos = as.Pos()
		}
		return true
	})
	if xObj == nil {
		r.Ob("annual-date", "-", false, "no month/day of the annual date computed before the day loop")
		return
	}
	ok := false
	det := ""
	ds := defsOf(info, lit.Body, xObj)
	if len(ds) == 1 && ds[0].Idx == 1 {
		if c, isCall := stripParens(ds[0].Rhs).(*ast.CallExpr); isCall && len(c.Args) == 1 && strings.HasSuffix(types.ExprString(c.Fun), ".Datum") {
			// argument: AnnualOutputDate + EndDate[4:]
			arg := c.Args[0]
			if o := useObj(info, arg); o != nil {
				if dd := defsOf(info, lit.Body, o); len(dd) == 1 {
					arg = dd[0].Rhs
				}
			}
			str := types.ExprString(stripParens(arg))
			det = "annual date text = " + str
			if be, isBin := stripParens(arg).(*ast.BinaryExpr); isBin && be.Op == token.ADD {
				lhs, rhs := types.ExprString(be.X), types.ExprString(be.Y)
				ok = strings.HasSuffix(lhs, ".AnnualOutputDate") && strings.Contains(rhs, ".EndDate[4:]")
			}
		}
	}
	r.Ob("annual-date", p.Pos(pos), ok, "the yearly test's reference date is the absolute day of the configured annual date in the end year: "+det)
}

// ---------------------------------------------------------------- crop record decision

func c05CropFlag(p *Prog, r *Report) {
	r.Rule("C05.R2", "crop record: Run writes it exactly when the nitrogen routine called in the same sub-step reports a finished cycle; that report is raised only in the harvest branch (day == harvest date, first sub-step), after the record was filled and before the rotation index advances; the record is not refilled on the same path", 5)
	fi, lit := runClosure(p)
	x := walked(p, "hermes.HermesSession.Run")
	if fi == nil || x == nil {
		return
	}
	roles := outputRoles(p, x, lit)
	for _, e := range x.Events {
		if e.Kind != "call" || e.Name != "hermes.OutputConfig.WriteLine" || roles[recvObj(x.Info, e.Call)] != "cropOutput" {
			continue
		}
		// find the Nitro call
		var nit *Event
		for _, c := range x.Events {
			if c.Kind == "call" && c.Name == "hermes.Nitro" {
				nit = c
			}
		}
		if nit == nil {
			r.Ob("run:decision", p.Pos(e.Pos), false, "no call of the nitrogen routine found")
			continue
		}
		ok := false
		det := ""
		sameIter := len(nit.Loops) > 0 && len(e.Loops) > 0 && nit.Loops[len(nit.Loops)-1] == e.Loops[len(e.Loops)-1] && e.Seq > nit.Seq
		// guard is the first result of that call
		flagGuard := false
		for _, g := range flattenGuards(e.Guards) {
			if g.Kind == "opq" && strings.HasPrefix(g.Text, "hermes.Nitro()#") && strings.HasSuffix(g.Text, ".0") {
				flagGuard = true
			}
		}
		if sameIter && flagGuard {
			ok = true
			det = "written in the same sub-step iteration as the Nitro call, guarded by its finished-cycle result"
		} else {
			// accumulated form: flag set to true under the result inside the loop, reset per day, tested after the loop
			det = "the write is not guarded by the finished-cycle result of the Nitro call of the same iteration"
			var flagAtom *Atom
			for _, g := range flattenGuards(e.Guards) {
				if g.Kind == "opq" && strings.Contains(g.Text, "@L") {
					g2 := g
					_ = g2
				}
			}
			_ = flagAtom
			if acc := c05Accumulated(x, e, nit); acc != "" {
				ok = true
				det = acc
			} else {
				det += " (a flag overwritten by later sub-steps loses the report of the first sub-step, the only one that can raise it)"
			}
		}
		r.Ob("run:decision", p.Pos(e.Pos), ok, det)
	}
	// Nitro side
	nx := walked(p, "hermes.Nitro")
	if nx == nil {
		r.Ob("nitro", "-", false, "hermes.Nitro not found")
		return
	}
	run := x
	day := dayLoop(run)
	tp := timeParam(p, run, day, "hermes.Nitro")
	subd := ""
	for _, f := range substepScope(p).Fns {
		if f.Key == "hermes.Nitro" {
			subd = f.Subd
		}
	}
	akfInc := []*Event{}
	for _, e := range nx.Events {
		if e.Kind == "assign" && e.Root == "GlobalVarsMain.AKF.Index" {
			akfInc = append(akfInc, e)
		}
	}
	var raises []*Event
	for _, e := range nx.Events {
		if e.Kind == "assign" && e.Local != nil && e.Local.Name() == "finishedCycle" {
			switch e.Val.String() {
			case "true":
				raises = append(raises, e)
			case "false":
			default:
				r.Ob("nitro:raise", p.Pos(e.Pos), false, "the finished-cycle report is assigned the computed value "+clip(e.Val.String(), 120)+": it must be raised only by the harvest branch")
			}
		}
	}
	if len(raises) == 0 {
		r.Ob("nitro:raise", "-", false, "the nitrogen routine never reports a finished cycle")
	}
	for _, e := range raises {
		ok := true
		det := ""
		if subd == "" || !guardedBy(e, pVar(subd).Sub(PInt(1)), token.EQL) {
			ok = false
			det += "; not restricted to the first sub-step (one record per sub-step)"
		}
		hd := false
		for _, g := range flattenGuards(e.Guards) {
			if idx, off, t, isD := dateEq(g, "GlobalVarsMain.ERNTE"); isD && off == 0 && tp != "" && t.Equal(pVar(tp)) && stripVersions(idx).Equal(cellP("GlobalVarsMain.AKF.Index")) {
				hd = true
			}
		}
		if !hd {
			ok = false
			det += "; not under day == harvest date of the current rotation entry"
		}
		// record filled before, on the same path: some store to CropOutputVars.Crop with guards ⊆ this event's guards
		filled := false
		gk := map[string]bool{}
		for _, g := range flattenGuards(e.Guards) {
			gk[g.Key()] = true
		}
		for _, f := range nx.Events {
			if f.Kind == "assign" && f.Root == "CropOutputVars.Crop" && f.Seq < e.Seq {
				sub := true
				for _, g := range flattenGuards(f.Guards) {
					if !gk[g.Key()] {
						sub = false
					}
				}
				if sub {
					filled = true
				}
			}
		}
		if !filled {
			ok = false
			det += "; the crop record is not filled on this path before the report"
		}
		r.Ob("nitro:raise", p.Pos(e.Pos), ok, "finished cycle reported"+orStr(det, ": first sub-step, on the harvest date, record filled before"))
	}
	// the crop code written is the one of the rotation entry being harvested: filled before AKF advances
	var fills []*Event
	for _, f := range nx.Events {
		if f.Kind == "assign" && f.Root == "CropOutputVars.Crop" {
			fills = append(fills, f)
		}
	}
	for _, f := range fills {
		if c := f.Val.String(); strings.HasPrefix(c, "\"") {
			continue // literal code of a skipped entry
		}
		ok := len(akfInc) > 0
		for _, a := range akfInc {
			if a.Seq < f.Seq {
				ok = false
			}
		}
		idxOK := false
		want := cellP("GlobalVarsMain.FRUCHT", cellP("GlobalVarsMain.AKF.Index"))
		if stripVersions(f.Val).Equal(want) {
			idxOK = true
		}
		// value is the result of a conversion call taking FRUCHT[AKF.Index]
		for _, c := range nx.Events {
			if c.Kind == "call" && c.Seq < f.Seq && f.Seq-c.Seq <= 2 && len(c.Args) > 0 && stripVersions(c.Args[0]).Equal(want) && guardKeys(c.Guards) == guardKeys(f.Guards) {
				idxOK = true
			}
		}
		r.Ob("nitro:fill-before-advance", p.Pos(f.Pos), ok && idxOK, fmt.Sprintf("crop code = %s filled before the rotation index advances: %v, from the current rotation entry: %v", clip(f.Val.String(), 80), ok, idxOK))
	}
	// typestate: two fills on one feasible path without a return in between
	for i := 0; i < len(fills); i++ {
		for j := i + 1; j < len(fills); j++ {
			a, b := fills[i], fills[j]
			excl := false
			ga := map[string]bool{}
			for _, g := range flattenGuards(a.Guards) {
				ga[g.Key()] = true
			}
			for _, g := range flattenGuards(b.Guards) {
				if ga[g.Negate().Key()] {
					excl = true
				}
			}
			r.Ob("nitro:record-overwrite", p.Pos(b.Pos), excl, fmt.Sprintf("the crop record filled at %s is filled again at %s in the same call; mutually exclusive paths: %v (otherwise the harvested crop's record is replaced before Run writes the single line)", p.Pos(a.Pos), p.Pos(b.Pos), excl))
		}
	}
}

// c05Accumulated recognises:  flag reset to false in the day loop before the
// sub-step loop; "if finished { flag = true }" in the loop; write after the loop
// guarded by flag.
func c05Accumulated(x *Exec, w *Event, nit *Event) string {
	sub := nit.Loops[len(nit.Loops)-1]
	if w.InLoop(sub) {
		return ""
	}
	for _, e := range x.Events {
		if e.Kind != "assign" || e.Local == nil || !innermost(e, sub) || e.Val.String() != "true" {
			continue
		}
		flagGuard := false
		for _, g := range flattenGuards(e.Guards) {
			if g.Kind == "opq" && strings.HasPrefix(g.Text, "hermes.Nitro()#") && strings.HasSuffix(g.Text, ".0") {
				flagGuard = true
			}
		}
		if !flagGuard {
			continue
		}
		// no other store to the flag in the loop; reset to false before the loop in the same day iteration
		n := 0
		for _, o := range x.Events {
			if o.Kind == "assign" && o.Local == e.Local && o.InLoop(sub) {
				n++
			}
		}
		if n != 1 {
			continue
		}
		reset := false
		if v, ok := sub.Entry.vars[e.Local]; ok && v.String() == "false" {
			reset = true
		}
		guarded := false
		for _, g := range flattenGuards(w.Guards) {
			if g.Kind == "opq" && strings.HasPrefix(g.Text, e.Local.Name()+"@") {
				guarded = true
			}
		}
		if reset && guarded {
			return "accumulated form: flag reset per day, raised under the Nitro result inside the sub-step loop, tested after it"
		}
	}
	return ""
}

// ---------------------------------------------------------------- columns

func c05Columns(p *Prog, r *Report) {
	r.Rule("C05.R3", "one formatted field per configured column: the line is sized by the number of configured columns, the loop visits every column, and every arm of the column type switch (including the fallback) adds exactly one field; column kinds the binder can produce but no arm formats are listed", 4)
	fi := p.Funcs["hermes.OutputConfig.WriteLine"]
	if fi == nil {
		r.Ob("WriteLine", "-", false, "OutputConfig.WriteLine not found")
		return
	}
	info := fi.Pkg.TypesInfo
	var ts *ast.TypeSwitchStmt
	var rng *ast.RangeStmt
	ast.Inspect(fi.Decl.Body, func(n ast.Node) bool {
		if t, ok := n.(*ast.TypeSwitchStmt); ok && ts == nil {
			ts = t
		}
		if t, ok := n.(*ast.RangeStmt); ok && rng == nil {
			rng = t
		}
		return true
	})
	if ts == nil || rng == nil {
		r.Ob("WriteLine:shape", p.Pos(fi.Decl.Pos()), false, "no range over the columns with a type switch on the bound value")
		return
	}
	// range over c.DataColumns; line sized by numDataColumns which is len(DataColumns)
	rf := fieldOf(info, rng.X)
	sized := ""
	ast.Inspect(fi.Decl.Body, func(n ast.Node) bool {
		if call, ok := n.(*ast.CallExpr); ok {
			if f := callee(info, call); f != nil && f.Name() == "NewOutputLine" && len(call.Args) == 1 {
				sized = fieldOf(info, call.Args[0])
			}
		}
		return true
	})
	okSize := rf == "DataColumns" && sized == "numDataColumns"
	// numDataColumns = len(DataColumns) wherever it is assigned
	nset := 0
	for _, a := range p.Fields().WriteSites(FieldRef{"OutputConfig", "numDataColumns"}) {
		as, ok := a.Node.(*ast.AssignStmt)
		if !ok {
			continue
		}
		for i, l := range as.Lhs {
			if fieldOf(a.Fn.Pkg.TypesInfo, l) == "numDataColumns" && i < len(as.Rhs) {
				nset++
				call, isCall := as.Rhs[i].(*ast.CallExpr)
				if !isCall || len(call.Args) != 1 || fieldOf(a.Fn.Pkg.TypesInfo, call.Args[0]) != "DataColumns" {
					okSize = false
				} else if id, isId := call.Fun.(*ast.Ident); !isId || id.Name != "len" {
					okSize = false
				}
			}
		}
	}
	r.Ob("line-size", p.Pos(rng.Pos()), okSize && nset > 0, fmt.Sprintf("line sized by %s, loop over %s, numDataColumns assigned len(DataColumns) at %d site(s)", sized, rf, nset))
	// arms
	handled := map[string]bool{}
	defaultAdds := -1
	for _, cl := range ts.Body.List {
		cc := cl.(*ast.CaseClause)
		adds := countAdds(info, cc.Body)
		name := "default"
		if cc.List != nil {
			var ns []string
			for _, t := range cc.List {
				ns = append(ns, types.TypeString(info.TypeOf(t), func(*types.Package) string { return "" }))
				handled[types.TypeString(info.TypeOf(t), func(*types.Package) string { return "" })] = true
			}
			name = strings.Join(ns, ",")
		} else {
			defaultAdds = adds.min
		}
		r.Ob("arm:"+name, p.Pos(cc.Pos()), adds.min == 1 && adds.max == 1, fmt.Sprintf("arm %s adds between %d and %d field(s) per column (must be exactly 1)", name, adds.min, adds.max))
	}
	if defaultAdds < 0 {
		r.Ob("arm:default", p.Pos(ts.Pos()), false, "no fallback arm: a column bound to a kind without an arm adds no field")
	}
	// bindable kinds
	var missing []string
	total := 0
	for _, sn := range []string{"GlobalVarsMain", "CropOutputVars"} {
		obj := p.Hermes.Types.Scope().Lookup(sn)
		if obj == nil {
			continue
		}
		st, ok := obj.Type().Underlying().(*types.Struct)
		if !ok {
			continue
		}
		var visit func(prefix string, t types.Type, depth int)
		leaf := func(path string, t types.Type) {
			total++
			k := "*" + types.TypeString(t, func(*types.Package) string { return "" })
			if !handled[k] {
				missing = append(missing, path+" "+k)
			}
		}
		arr := func(path string, t types.Type) {
			if a, ok := t.Underlying().(*types.Array); ok {
				if a2, ok := a.Elem().Underlying().(*types.Array); ok {
					leaf(path+"[i][j]", a2.Elem())
				} else {
					leaf(path+"[i]", a.Elem())
				}
			} else {
				leaf(path, t)
			}
		}
		visit = func(prefix string, t types.Type, depth int) {
			s, ok := t.Underlying().(*types.Struct)
			if ok && depth == 0 {
				for i := 0; i < s.NumFields(); i++ {
					f := s.Field(i)
					if !f.Exported() {
						continue
					}
					arr(prefix+"."+f.Name(), f.Type())
				}
				return
			}
			arr(prefix, t)
		}
		for i := 0; i < st.NumFields(); i++ {
			f := st.Field(i)
			if !f.Exported() {
				continue
			}
			if _, isStruct := f.Type().Underlying().(*types.Struct); isStruct {
				visit(sn+"."+f.Name(), f.Type(), 0)
			} else {
				arr(sn+"."+f.Name(), f.Type())
			}
		}
	}
	sort.Strings(missing)
	r.Extra["bindable_targets"] = total
	r.Extra["bindable_without_arm"] = len(missing)
	ex := missing
	if len(ex) > 6 {
		ex = ex[:6]
	}
	r.Ob("kinds", p.Pos(ts.Pos()), defaultAdds == 1 || len(missing) == 0, fmt.Sprintf("%d bindable column targets (exported fields, one struct level, one or two array levels); %d have no arm of their own (e.g. %s); the fallback arm adds %d field(s) for them", total, len(missing), strings.Join(ex, "; "), defaultAdds))
}

type addCount struct{ min, max int }

// countAdds counts calls of OutputLine.Add/AddDate along the paths of a statement list.
func countAdds(info *types.Info, list []ast.Stmt) addCount {
	c := addCount{}
	for _, s := range list {
		switch t := s.(type) {
		case *ast.IfStmt:
			a := countAdds(info, t.Body.List)
			b := addCount{}
			if t.Else != nil {
				switch e := t.Else.(type) {
				case *ast.BlockStmt:
					b = countAdds(info, e.List)
				case *ast.IfStmt:
					b = countAdds(info, []ast.Stmt{e})
				}
			}
			c.min += minInt(a.min, b.min)
			c.max += maxInt(a.max, b.max)
			// calls in the condition/init are not expected
		case *ast.ForStmt, *ast.RangeStmt, *ast.SwitchStmt, *ast.TypeSwitchStmt:
			n := 0
			ast.Inspect(s, func(m ast.Node) bool {
				if call, ok := m.(*ast.CallExpr); ok && isAdd(info, call) {
					n++
				}
				return true
			})
			if n > 0 {
				c.max += 1 << 20
			}
		default:
			ast.Inspect(s, func(m ast.Node) bool {
				if call, ok := m.(*ast.CallExpr); ok && isAdd(info, call) {
					c.min++
					c.max++
				}
				return true
			})
		}
	}
	return c
}

func isAdd(info *types.Info, call *ast.CallExpr) bool {
	f := callee(info, call)
	return f != nil && (calleeName(f) == "hermes.OutputLine.Add" || calleeName(f) == "hermes.OutputLine.AddDate")
}

func minInt(a, b int) int {
	if a < b {
		return a
	}
	return b
}

func maxInt(a, b int) int {
	if a > b {
		return a
	}
	return b
}

// ---------------------------------------------------------------- end date writers

var endWriters = map[string]string{
	"hermes.readConfig":                         "end date from the configuration",
	"hermes.PrognoseTime":                       "fertiliser prognosis: end of the forecast period",
	"hermes.SimulateFertilizationAfterPrognose": "fertiliser prognosis: simulated applications end the run on their date",
	"hermes.progout":                            "fertiliser prognosis output",
}

func c05EndWriters(p *Prog, r *Report) {
	r.Rule("C05.R4", "end of period: only the configuration reader (and the fertiliser-prognosis routines) set the end date; nothing else moves it", 3)
	for _, w := range p.Fields().Writers(FieldRef{"GlobalVarsMain", "ENDE"}) {
		if strings.HasPrefix(w.Key, "hermes.NewDefault") || w.Key == "hermes.NewGlobalVarsMain" {
			continue
		}
		reason, ok := endWriters[w.Key]
		pos := p.Pos(w.Decl.Pos())
		for _, a := range p.Fields().WriteSites(FieldRef{"GlobalVarsMain", "ENDE"}) {
			if a.Fn == w {
				pos = p.Pos(a.Pos)
				break
			}
		}
		r.Ob("writer:ENDE:"+strings.TrimPrefix(w.Key, "hermes."), pos, ok, orStr(reason, "the end date is changed here: the day loop runs to this value, so records are written for days after the configured end date (or the period is cut short)"))
	}
}
