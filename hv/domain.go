package main

// Domain obligations of partial floating point operations: the places where
// NaN and ±Inf can enter the model state.  Every such operation in the
// functions of a scope is found at the statement that executes it (walker hook
// OnOp) and decided by the sign analysis of sign.go from the path condition,
// the values the function stored before, and the named assumptions of
// assume.go.  Operations whose operand is a parameter are decided at every
// call site instead.

import (
	"fmt"
	"go/ast"
	"go/token"
	"os"
	"sort"
	"strings"
)

// DomOb is one partial operation found at the statement that executes it.
type DomOb struct {
	Fn      string
	Kind    string // div | idiv | pow | sqrt | log
	Op      Poly   // the constrained operand
	Num     Poly   // numerator of a division
	Forbid  Sg
	Need    string
	Got     Sg
	OK      bool
	How     string // how it was decided
	Pos     token.Pos
	Facts   []*Cond
	Loops   []*LoopCtx
	Assumed []string
}

func (o *DomOb) Operand() string { return verRe.ReplaceAllString(o.Op.String(), "") }

type domWalk struct {
	fi  *FuncInfo
	x   *Exec
	obs []*DomOb
}

// clampInfo: for a quotient that is the whole right-hand side of an assignment "v = a / b", which clamps of v
// follow before anything else happens: "if v < K { v = K }" (floor) and "if v > K { v = K }" (cap), directly
// after the assignment or directly after the if/else chain the assignment sits in.  A quotient over a zero
// divisor with a non-zero numerator is ±Inf, which such clamps turn into K.
type clampInfo struct{ floor, cap bool }

func clampIdioms(body *ast.BlockStmt) map[ast.Node]clampInfo {
	out := map[ast.Node]clampInfo{}
	parent := map[ast.Node]ast.Node{}
	var stack []ast.Node
	ast.Inspect(body, func(n ast.Node) bool {
		if n == nil {
			stack = stack[:len(stack)-1]
			return true
		}
		if len(stack) > 0 {
			parent[n] = stack[len(stack)-1]
		}
		stack = append(stack, n)
		return true
	})
	clampOf := func(st ast.Stmt, lhs string) (floor, cap bool) {
		ifs, ok := st.(*ast.IfStmt)
		if !ok || ifs.Init != nil || ifs.Else != nil || len(ifs.Body.List) != 1 {
			return
		}
		c, ok := ast.Unparen(ifs.Cond).(*ast.BinaryExpr)
		if !ok || exprText(c.X) != lhs {
			return
		}
		in, ok := ifs.Body.List[0].(*ast.AssignStmt)
		if !ok || len(in.Lhs) != 1 || len(in.Rhs) != 1 || in.Tok != token.ASSIGN || exprText(in.Lhs[0]) != lhs || exprText(in.Rhs[0]) != exprText(c.Y) {
			return
		}
		switch y := ast.Unparen(c.Y).(type) {
		case *ast.BasicLit:
		case *ast.UnaryExpr:
			if _, isLit := y.X.(*ast.BasicLit); !isLit {
				return
			}
		default:
			return
		}
		switch c.Op {
		case token.LSS, token.LEQ:
			return true, false
		case token.GTR, token.GEQ:
			return false, true
		}
		return
	}
	ast.Inspect(body, func(n ast.Node) bool {
		as, ok := n.(*ast.AssignStmt)
		if !ok || len(as.Lhs) != 1 || len(as.Rhs) != 1 || (as.Tok != token.ASSIGN && as.Tok != token.DEFINE) {
			return true
		}
		q, ok := ast.Unparen(as.Rhs[0]).(*ast.BinaryExpr)
		if !ok || q.Op != token.QUO {
			return true
		}
		lhs := exprText(as.Lhs[0])
		var info clampInfo
		var cur ast.Node = as
		for level := 0; level < 4; level++ {
			blk, ok := parent[cur].(*ast.BlockStmt)
			if !ok {
				break
			}
			idx := -1
			for i, st := range blk.List {
				if st == cur {
					idx = i
				}
			}
			if idx < 0 {
				break
			}
			if idx+1 < len(blk.List) {
				for j := idx + 1; j < len(blk.List) && j <= idx+2; j++ {
					f, c := clampOf(blk.List[j], lhs)
					if !f && !c {
						break
					}
					info.floor = info.floor || f
					info.cap = info.cap || c
				}
				break
			}
			// last statement of its block: continue after the enclosing if/else chain
			up := parent[blk]
			ifs, ok := up.(*ast.IfStmt)
			if !ok {
				break
			}
			var top ast.Node = ifs
			for {
				pi, ok := parent[top].(*ast.IfStmt)
				if !ok || pi.Else != top {
					break
				}
				top = pi
			}
			cur = top
		}
		if info.floor || info.cap {
			out[q] = info
		}
		return true
	})
	return out
}

func exprText(e ast.Expr) string {
	var sb strings.Builder
	var rec func(e ast.Expr)
	rec = func(e ast.Expr) {
		switch t := e.(type) {
		case *ast.Ident:
			sb.WriteString(t.Name)
		case *ast.SelectorExpr:
			rec(t.X)
			sb.WriteString("." + t.Sel.Name)
		case *ast.IndexExpr:
			rec(t.X)
			sb.WriteString("[")
			rec(t.Index)
			sb.WriteString("]")
		case *ast.BasicLit:
			sb.WriteString(t.Value)
		case *ast.ParenExpr:
			rec(t.X)
		case *ast.BinaryExpr:
			rec(t.X)
			sb.WriteString(t.Op.String())
			rec(t.Y)
		default:
			sb.WriteString(fmt.Sprintf("?%T", e))
		}
	}
	rec(e)
	return sb.String()
}

// domainWalk walks one function with the operation hook armed.
func domainWalk(p *Prog, key string, as *Assumptions) (*domWalk, error) {
	fi := p.Funcs[key]
	var body *ast.BlockStmt
	if key == "hermes.HermesSession.Run" {
		var lit *ast.FuncLit
		fi, lit = runClosure(p)
		if lit != nil {
			body = lit.Body
		}
	} else if fi != nil && fi.Decl != nil {
		body = fi.Decl.Body
	}
	if fi == nil || body == nil {
		return nil, fmt.Errorf("function %s not found", key)
	}
	x := NewExec(p, fi)
	w := &domWalk{fi: fi, x: x}
	clamps := clampIdioms(body)
	x.OnOp = func(st *State, kind string, site ast.Node, ops []Poly) {
		facts := flattenGuards(st.guards)
		loops := append([]*LoopCtx{}, x.loops...)
		add := func(k string, operand Poly, forbid Sg, need string) *DomOb {
			env := newSignEnv(x, facts, loops, as)
			if tr := os.Getenv("HV_SIGN_TRACE"); tr != "" {
				signDebug = strings.Contains(operand.String(), tr)
			}
			s := env.poly(operand)
			if s&forbid != 0 && as != nil {
				// second attempt with the alternative rewriting
				env2 := newSignEnv(x, facts, loops, as)
				env2.rewrite = as.RewriteAlt
				if s2 := env2.poly(operand); s2&forbid == 0 {
					s, env = s2, env2
				}
			}
			if signDebug {
				fmt.Fprintf(os.Stderr, "OB %s %s -> %s\n", k, clip(operand.String(), 100), s)
			}
			if _, isC := operand.Const(); isC && s&forbid == 0 {
				return nil
			}
			ob := &DomOb{Fn: key, Kind: k, Op: operand, Forbid: forbid, Need: need, Got: s, OK: s&forbid == 0, How: "path condition, stored values and assumptions", Pos: site.Pos(), Facts: facts, Loops: loops, Assumed: env.usedNames()}
			w.obs = append(w.obs, ob)
			return ob
		}
		switch kind {
		case "quo":
			ob := add("div", ops[1], sZ, "divisor != 0")
			if ob != nil {
				ob.Num = ops[0]
				if ci, has := clamps[site]; !ob.OK && has {
					// with the divisor equal to 0 the quotient is ±Inf (not NaN) when the numerator is not 0;
					// the clamps that follow turn the infinity into their bound
					zero := &Cond{Kind: "cmp", Op: token.EQL, P: ops[1]}
					env := newSignEnv(x, append(append([]*Cond{}, facts...), zero), loops, as)
					ns := env.poly(ops[0])
					den := ob.Got &^ sZ
					needCap := ns&sP != 0 && den&sP != 0 || ns&sN != 0 && den&sN != 0 || den == 0 && ns&sP != 0
					needFloor := ns&sN != 0 && den&sP != 0 || ns&sP != 0 && den&sN != 0 || den == 0 && ns&sN != 0
					if ns&sZ == 0 && (!needCap || ci.cap) && (!needFloor || ci.floor) {
						ob.OK = true
						ob.How = fmt.Sprintf("divisor may be 0, but then the numerator is %s and the infinite quotient is clamped by the statement(s) that follow (floor: %v, cap: %v)", ns, ci.floor, ci.cap)
						ob.Assumed = append(ob.Assumed, env.usedNames()...)
					}
				}
			}
		case "idiv", "mod":
			add("idiv", ops[1], sZ, "integer divisor != 0 (panics otherwise)")
		case "pow":
			if len(ops) == 2 {
				if n, ok := ops[1].ConstInt(); ok {
					if n < 0 {
						add("div", ops[0], sZ, "base of a negative power != 0")
					}
					return
				}
				if c, ok := ops[1].Const(); ok && c.Sign() > 0 {
					add("pow", ops[0], sN, "base of a fractional power >= 0")
					return
				}
				add("pow", ops[0], sN|sZ, "base of a power with a computed or negative exponent > 0")
			}
		case "sqrt":
			add("sqrt", ops[0], sN, "argument >= 0")
		case "log", "log10":
			add("log", ops[0], sN|sZ, "argument > 0")
		case "asin", "acos":
			add(kind, ops[0].Mul(ops[0]).Sub(PInt(1)), sP, "|argument| <= 1")
		}
	}
	x.RunBody(body)
	return w, nil
}

func newSignEnv(x *Exec, facts []*Cond, loops []*LoopCtx, as *Assumptions) *signEnv {
	env := &signEnv{x: x, facts: append([]*Cond{}, facts...), loops: loops, used: map[string]bool{}}
	for _, L := range loops {
		if L.Var != nil && ascendingLoop(x, L) {
			env.facts = append(env.facts, &Cond{Kind: "cmp", Op: token.GEQ, P: PAtom(L.Var).Sub(L.Lo)})
		}
	}
	if as != nil {
		env.assume, env.rewrite, env.box = as.Sign, as.Rewrite, as.Box
		env.as = as
	}
	return env
}

func (env *signEnv) usedNames() []string {
	var out []string
	for n := range env.used {
		out = append(out, n)
	}
	out = append(out, env.implied...)
	sort.Strings(out)
	return out
}

// ---------------------------------------------------------------- scope and call sites

type domResult struct {
	walks    map[string]*domWalk
	order    []string
	excluded map[string]string
}

// domainScope: the functions reachable from the roots through static calls inside package hermes, minus the
// named exclusions (each with its reason).
func domainScope(p *Prog, roots []string, excluded map[string]string) []string {
	fx := p.Fields()
	seen := map[string]bool{}
	var order []string
	var visit func(fi *FuncInfo)
	visit = func(fi *FuncInfo) {
		if fi == nil || seen[fi.Key] || fi.Decl == nil || fi.Decl.Body == nil || !strings.HasPrefix(fi.Key, "hermes.") {
			return
		}
		seen[fi.Key] = true
		if _, ex := excluded[fi.Key]; ex {
			return
		}
		order = append(order, fi.Key)
		for _, c := range fx.Calls[fi] {
			visit(c)
		}
	}
	for _, k := range roots {
		visit(p.Funcs[k])
	}
	sort.Strings(order)
	return order
}

func runDomain(p *Prog, keys []string, as *Assumptions) (*domResult, error) {
	res := &domResult{walks: map[string]*domWalk{}, order: keys}
	for _, k := range keys {
		w, err := domainWalk(p, k, as)
		if err != nil {
			return nil, err
		}
		res.walks[k] = w
	}
	// parameters: decide at the call sites
	for _, k := range keys {
		w := res.walks[k]
		if w.fi.Decl == nil {
			continue
		}
		params := paramNames(w.fi.Decl)
		pidx := map[string]int{}
		for i, n := range params {
			pidx[n] = i
		}
		for _, ob := range w.obs {
			if ob.OK {
				continue
			}
			onlyParams, any := true, false
			ob.Op.walkAtoms(func(a *Atom) {
				switch a.Kind {
				case "var":
					if _, ok := pidx[a.Root]; ok {
						any = true
					} else {
						onlyParams = false
					}
				case "cell", "call", "inv", "gap", "str":
				default:
					onlyParams = false
				}
			})
			if !any || !onlyParams || len(ob.Facts) > 0 && false {
				continue
			}
			sites, good := 0, 0
			var assumed []string
			var bad []string
			for _, ck := range keys {
				cw := res.walks[ck]
				for _, e := range cw.x.Events {
					if e.Kind != "call" || e.Callee == nil || e.Callee != w.fi.Obj {
						continue
					}
					sites++
					q := ob.Op.Subst(func(a *Atom) (Poly, bool) {
						if a.Kind == "var" {
							if i, ok := pidx[a.Root]; ok && i < len(e.Args) {
								return e.Args[i], true
							}
						}
						return Poly{}, false
					})
					env := newSignEnv(cw.x, flattenGuards(e.Guards), e.Loops, as)
					// facts of the callee that only mention parameters hold as well (after substitution they are
					// conditions on the arguments that the callee itself tested)
					for _, f := range ob.Facts {
						env.facts = append(env.facts, substCond(f, pidx, e.Args))
					}
					s := env.poly(q)
					if s&ob.Forbid == 0 {
						good++
						assumed = append(assumed, env.usedNames()...)
					} else {
						bad = append(bad, fmt.Sprintf("%s (%s: %s)", p.Pos(e.Pos), clip(verRe.ReplaceAllString(q.String(), ""), 80), s))
					}
				}
			}
			if sites > 0 && good == sites {
				ob.OK = true
				ob.How = fmt.Sprintf("operand is a parameter: decided at all %d call sites", sites)
				sort.Strings(assumed)
				ob.Assumed = uniqStrings(assumed)
			} else if sites > 0 {
				ob.How = fmt.Sprintf("operand is a parameter: %d of %d call sites undecided: %s", sites-good, sites, strings.Join(bad, "; "))
			} else {
				ob.How = "operand is a parameter and the function has no call site in the analysed scope"
			}
		}
	}
	return res, nil
}

func uniqStrings(in []string) []string {
	var out []string
	for i, s := range in {
		if i == 0 || s != in[i-1] {
			out = append(out, s)
		}
	}
	return out
}

// substCond substitutes call arguments for parameter atoms in a condition.
func substCond(c *Cond, pidx map[string]int, args []Poly) *Cond {
	n := *c
	if len(c.Sub) > 0 {
		n.Sub = nil
		for _, s := range c.Sub {
			n.Sub = append(n.Sub, substCond(s, pidx, args))
		}
	}
	if c.Kind == "cmp" {
		n.P = c.P.Subst(func(a *Atom) (Poly, bool) {
			if a.Kind == "var" {
				if i, ok := pidx[a.Root]; ok && i < len(args) {
					return args[i], true
				}
			}
			return Poly{}, false
		})
	}
	return &n
}

// domainExcluded: functions of the run path whose partial operations are not decided, each with its reason.
var domainExcluded = map[string]string{
	"hermes.CalculateDayLenght":  "solar geometry: the operands are trigonometric expressions of latitude and day of year, outside a sign analysis; its results enter through the named assumption solar-geometry",
	"hermes.stomat":              "photosynthesis light response for the stomatal resistance: trigonometric and crop-parameter operands; only the resistance handed over is used (assumption stomatal-resistance>0)",
	"hermes.radia":               "photosynthesis light response: trigonometric and crop-parameter operands; the zero day length lift is decided by C09.R5",
	"hermes.resid":               "harvest residues: divides by N contents read from the residue table inside the function (no field to attach a valid-input assumption to)",
	"hermes.residi":              "initial residues: divides by 1 − root share read from the residue table inside the function (no field to attach a valid-input assumption to)",
	"hermes.GetGroundWaterLevel": "series interpolation: the divisor next − prev is non-zero because the search leaves prev < date < next in the general case, which C20.R1/R3 decide",
}

// ---------------------------------------------------------------- rule driver

var domainCache = map[string]*domResult{}

// domainRule reports the domain obligations of the given functions (a nil list means: every function reachable
// from the run closure) under one rule id.
func domainRule(p *Prog, r *Report, rule, what string, only []string, min int) {
	r.Rule(rule, "no NaN or infinity is created in "+what+": at every statement that divides, takes a fractional power, a square root or a logarithm, the operand is inside the operation's domain (divisor != 0, base >= 0, argument >= 0 / > 0), decided by a sign analysis from the path condition, the values the function stored before (joined values arm by arm), the loop bounds and the named assumptions; an operand that is a parameter is decided at every call site; a quotient over a possibly zero divisor is accepted only when its numerator is then non-zero and the statement(s) that follow clamp the infinite result", min)
	as := newAssumptions()
	excluded := map[string]string{}
	for k, v := range domainExcluded {
		excluded[k] = v
	}
	all := domainScope(p, []string{"hermes.HermesSession.Run"}, excluded)
	ck := strings.Join(all, ",")
	res := domainCache[ck]
	if res == nil {
		var err error
		res, err = runDomain(p, all, as)
		if err != nil {
			r.Ob("scope", "-", false, "domain analysis failed: "+err.Error())
			return
		}
		domainCache[ck] = res
	}
	want := map[string]bool{}
	if len(only) > 0 {
		// the listed functions and everything they call
		for _, k := range domainScope(p, only, excluded) {
			want[k] = true
		}
	}
	for _, k := range only {
		if res.walks[k] == nil {
			if why, ex := excluded[k]; ex {
				r.Note("%s: %s is not decided: %s", rule, k, why)
			} else {
				r.Ob("scope:"+strings.TrimPrefix(k, "hermes."), "-", false, "function "+k+" is not on the run path any more")
			}
		}
	}
	used := map[string]bool{}
	nf := 0
	for _, k := range res.order {
		if len(only) > 0 && !want[k] {
			continue
		}
		w := res.walks[k]
		if len(w.obs) > 0 {
			nf++
		}
		for _, o := range w.obs {
			key := fmt.Sprintf("dom:%s:%s:%s", strings.TrimPrefix(k, "hermes."), o.Kind, clip(strings.ReplaceAll(o.Operand(), "GlobalVarsMain.", ""), 70))
			det := fmt.Sprintf("%s of [%s]: need %s, analysis gives %s — %s", o.Kind, clip(strings.ReplaceAll(o.Operand(), "GlobalVarsMain.", ""), 160), o.Need, o.Got, o.How)
			if len(o.Assumed) > 0 {
				det += "; assuming " + strings.Join(o.Assumed, ", ")
			}
			if !o.OK {
				env := newSignEnv(w.x, o.Facts, o.Loops, as)
				if b := env.blockers(o.Op); len(b) > 0 {
					det += fmt.Sprintf("; nothing is known about %v", b)
				}
				det += "; under: " + clip(guardKeys(o.Facts), 200)
			}
			r.Ob(key, p.Pos(o.Pos), o.OK, det)
			if o.OK {
				for _, n := range o.Assumed {
					used[n] = true
				}
			}
		}
	}
	if len(only) == 0 {
		// the constant layer thickness is an assumption the check can verify itself
		ws := p.Fields().WriteSites(FieldRef{"GlobalVarsMain", "DZ"})
		r.Ob("assumption:layer-thickness", "-", len(ws) == 0, fmt.Sprintf("the layer thickness DZ is written at %d site(s) besides the constructor's 10 cm (the analysis uses DZ = 10)", len(ws)))
		var ex []string
		for k := range excluded {
			ex = append(ex, k)
		}
		sort.Strings(ex)
		for _, k := range ex {
			r.Note("%s: %s is not decided: %s", rule, k, excluded[k])
		}
		r.Extra["domain_functions_analysed"] = len(res.order)
		r.Extra["domain_functions_with_obligations"] = nf
	}
	var names []string
	for n := range used {
		names = append(names, n)
	}
	sort.Strings(names)
	for _, n := range names {
		r.Assume = append(r.Assume, rule+" "+n+": "+as.Why[n])
	}
}
