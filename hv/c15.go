package main

// C15 — soil hydraulic parameters physically ordered for every parameter source.
// Structural conditions: percent/fraction agreement at the threshold helper
// and in every transfer between the capacity fields, the texture-table column
// groups, ordering of the linear transfer functions by coefficient dominance
// and of all four over the continuous texture domain by interval analysis,
// saturation below the groundwater table, and history independence of the
// daily groundwater update.

import (
	"fmt"
	"go/ast"
	"go/constant"
	"go/token"
	"go/types"
	"math/big"
	"sort"
	"strings"
)

func init() { register("C15", checkC15) }

func checkC15(p *Prog, r *Report) {
	c15Units(p, r)
	c15StoneScale(p, r)
	c15Table(p, r)
	c15PTF(p, r)
	c15PTFArgs(p, r)
	c15TableOrder(p, r)
	c15PTFPoreVolume(p, r)
	c15Saturation(p, r, "C15.R3")
	c15History(p, r, "C15.R4")
	// the texture table cells are turned into numbers by the shared helpers
	inputHelpers(p, r, "C15.R5")
	// an absent optional column must not be read from column 0 (the soil id becomes field capacity = wilting point = pore volume; shared with C13.optional-columns)
	c13OptionalColumnsAs(p, r, "C15.R6")
	// both soil layouts hand the same cells to the same parameters (a cell identified by rank instead of column shifts sand into field capacity; shared with C13.soil)
	siblingPairs(p, r, "C15.R7:", []sibPair{soilSiblingPair()})
}

// ---------------------------------------------------------------- units

// unit seeds: 100 = percent by volume, 1 = volumetric fraction
var c15Seeds = map[string]float64{
	"GlobalVarsMain.FKA": 100, "GlobalVarsMain.WP": 100, "GlobalVarsMain.GPV": 100,
	"currentSoil.FKA": 100, "currentSoil.WP": 100, "currentSoil.GPV": 100,
	"soildata.FKA": 100, "soildata.WP": 100, "soildata.GPV": 100,
	"GlobalVarsMain.W": 1, "GlobalVarsMain.WMIN": 1, "GlobalVarsMain.PORGES": 1, "GlobalVarsMain.WNOR": 1,
	"GlobalVarsMain.WG": 1, "GlobalVarsMain.WRED": 1, "GlobalVarsMain.FELDW": 1, "GlobalVarsMain.LIM": 1,
	"GlobalVarsMain.PRGES": 1, "GlobalVarsMain.NORMFK": 1, "InputSharedVars.FK": 1,
	"GlobalVarsMain.W_Backup": 1, "GlobalVarsMain.WMIN_Backup": 1, "GlobalVarsMain.PORGES_Backup": 1, "GlobalVarsMain.WNOR_Backup": 1,
}

func atomUnit(a *Atom) (float64, bool) {
	if a.Kind == "cell" {
		if u, ok := c15Seeds[a.Root]; ok {
			return u, true
		}
	}
	if a.Kind == "opq" && strings.HasPrefix(a.Fn, "hermes.PTF") {
		return 1, true
	}
	return 0, false
}

// termScale: for a term c·S·(dimensionless…) with exactly one seeded atom S
// returns |c|·unit(S).
func termScale(t *Term) (float64, string, bool) {
	var s *Atom
	n := 0
	for _, f := range t.M {
		if _, ok := atomUnit(f.A); ok {
			if f.E != 1 {
				return 0, "", false
			}
			s = f.A
			n++
		}
	}
	if n != 1 {
		return 0, "", false
	}
	u, _ := atomUnit(s)
	c, _ := t.C.Float64()
	if c < 0 {
		c = -c
	}
	return c * u, s.Key, true
}

func c15Units(p *Prog, r *Report) {
	r.Rule("C15.R1", "percent/fraction agreement: the threshold helper's expected input unit is derived from its body (result = mix(wp, fc)/100 with the mixing constant strictly between 0 and 1); every call passes both arguments in that unit; every transfer between capacity fields of known unit carries the matching factor", 12)
	// (a) expected unit of calcWRed
	fi := p.Funcs["hermes.calcWRed"]
	if fi == nil {
		r.Ob("calcWRed", "-", false, "hermes.calcWRed not found")
		return
	}
	names := paramNames(fi.Decl)
	x := NewExec(p, fi)
	x.Fork = true
	ends := x.RunBody(fi.Decl.Body)
	expect := 0.0
	okBody := len(ends) > 0 && len(names) >= 2
	det := ""
	for i, st := range ends {
		v := stripVersions(finalCell(st, "GlobalVarsMain.WRED"))
		sub := func(wp, fc int64) Poly {
			return v.Subst(func(a *Atom) (Poly, bool) {
				if a.Kind == "var" && a.Root == names[0] {
					return PInt(wp), true
				}
				if a.Kind == "var" && a.Root == names[1] {
					return PInt(fc), true
				}
				return Poly{}, false
			})
		}
		k11, ok1 := sub(1, 1).Const()
		k01, ok2 := sub(0, 1).Const()
		if !ok1 || !ok2 || k11.Sign() <= 0 {
			okBody = false
			det += fmt.Sprintf("path %d: threshold %s is not a constant mix of the two arguments; ", i, v)
			continue
		}
		s, _ := new(big.Rat).SetFrac(k11.Denom(), k11.Num()).Float64()
		if expect == 0 {
			expect = s
		} else if expect != s {
			okBody = false
		}
		m, _ := new(big.Rat).Quo(k01, k11).Float64()
		det += fmt.Sprintf("path %d: WRED = (wp + %.3g·(fc−wp))/%g; ", i, m, s)
		if !(m > 0 && m < 1) {
			okBody = false
			det += "mixing constant not strictly between 0 and 1; "
		}
	}
	r.Ob("helper-unit", p.Pos(fi.Decl.Pos()), okBody, det+fmt.Sprintf("expected argument unit: %g × fraction", expect))
	// (b) call sites
	for _, key := range []string{"hermes.Input", "hermes.Hydro", "hermes.HermesSession.Run"} {
		w := walked(p, key)
		if w == nil {
			continue
		}
		for _, e := range w.Events {
			if e.Kind != "call" || e.Name != "hermes.calcWRed" {
				continue
			}
			ok := len(e.Args) >= 2
			d := ""
			for i := 0; i < 2 && i < len(e.Args); i++ {
				a := stripVersions(e.Args[i])
				t := a.single()
				if t == nil {
					// source × polynomial in dimensionless fractions (stone content): the unit is that of the
					// stone-free value
					if sc, src, okF := factoredScale(a); okF {
						d += fmt.Sprintf("arg %d = %s (%g × fraction, from %s, times a stone-content factor); ", i, a, sc, shortRoot(src))
						if sc != expect {
							ok = false
						}
						continue
					}
					ok = false
					d += fmt.Sprintf("arg %d = %s: unit not derivable; ", i, a)
					continue
				}
				sc, src, known := termScale(t)
				if !known {
					ok = false
					d += fmt.Sprintf("arg %d = %s: unit of the source unknown; ", i, a)
					continue
				}
				d += fmt.Sprintf("arg %d = %s (%g × fraction, from %s); ", i, a, sc, shortRoot(src))
				if sc != expect {
					ok = false
				}
			}
			// both arguments describe the same layer
			r.Ob("call:"+strings.TrimPrefix(key, "hermes."), p.Pos(e.Pos), ok, d+fmt.Sprintf("helper expects %g × fraction", expect))
		}
	}
	// (c) transfers between seeded fields
	for _, key := range []string{"hermes.Input", "hermes.Hydro", "hermes.HermesSession.Run", "hermes.setFieldCapacityWithGW", "hermes.Init", "hermes.LoadSoil", "hermes.LoadSoilCSV"} {
		w := walked(p, key)
		if w == nil {
			continue
		}
		seen := map[string]bool{}
		for _, e := range w.Events {
			if e.Kind != "assign" {
				continue
			}
			du, ok := c15Seeds[e.Root]
			if !ok {
				continue
			}
			v := stripVersions(e.Val)
			for _, t := range v.sortedTerms() {
				sc, src, known := termScale(t)
				if !known {
					continue
				}
				k := shortRoot(e.Root) + "←" + shortRoot(rootOfKey(src))
				// a wrong unit shows as a factor that is a power of 100 (weights such as 0.95·W + 0.05·WMIN are dimensionless and not judged)
				okT := true
				ratio := sc / du
				for _, k := range []float64{100, 0.01, 10000, 0.0001} {
					if ratio > k*0.999 && ratio < k*1.001 {
						okT = false
					}
				}
				if seen[k] && okT {
					continue
				}
				seen[k] = true
				r.Ob("transfer:"+strings.TrimPrefix(key, "hermes.")+":"+k, p.Pos(e.Pos), okT, fmt.Sprintf("%s (%g × fraction) receives %s scaled to %g × fraction", shortRoot(e.Root), du, shortRoot(src), sc))
			}
		}
	}
}

func rootOfKey(k string) string {
	if i := strings.Index(k, "["); i >= 0 {
		k = k[:i]
	}
	if i := strings.Index(k, "#"); i >= 0 {
		k = k[:i]
	}
	return k
}

// ---------------------------------------------------------------- texture table columns

func c15Table(p *Prog, r *Report) {
	r.Rule("C15.R2", "texture table: in every bulk-density arm field capacity, available water and pore volume are read from one column group (same offsets between the three columns in all arms, distinct groups per arm), the wilting point is field capacity minus the available water of that group, both as fractions", 4)
	fi := p.Funcs["hermes.Hydro"]
	if fi == nil {
		r.Ob("Hydro", "-", false, "hermes.Hydro not found")
		return
	}
	info := fi.Pkg.TypesInfo
	type arm struct {
		pos  token.Pos
		cols map[string][2]int64 // dest field → slice bounds
	}
	var arms []arm
	var visitIf func(s *ast.IfStmt)
	sliceOf := func(e ast.Expr) (lo, hi int64, ok bool) {
		ast.Inspect(e, func(n ast.Node) bool {
			se, isS := n.(*ast.SliceExpr)
			if !isS || ok {
				return true
			}
			l, lok := info.Types[se.Low]
			h, hok := info.Types[se.High]
			if lok && hok && l.Value != nil && h.Value != nil {
				lv, _ := constant.Int64Val(l.Value)
				hv, _ := constant.Int64Val(h.Value)
				lo, hi, ok = lv, hv, true
			}
			return true
		})
		return
	}
	collect := func(b *ast.BlockStmt, pos token.Pos) {
		a := arm{pos: pos, cols: map[string][2]int64{}}
		for _, s := range b.List {
			as, ok := s.(*ast.AssignStmt)
			if !ok || len(as.Lhs) != 1 {
				continue
			}
			f := fieldOf(info, as.Lhs[0])
			if lo, hi, ok := sliceOf(as.Rhs[0]); ok && f != "" {
				a.cols[f] = [2]int64{lo, hi}
			}
		}
		if len(a.cols) > 0 {
			arms = append(arms, a)
		}
	}
	visitIf = func(s *ast.IfStmt) {
		// condition mentions LD
		mentionsLD := false
		ast.Inspect(s.Cond, func(n ast.Node) bool {
			if se, ok := n.(*ast.SelectorExpr); ok && se.Sel.Name == "LD" {
				mentionsLD = true
			}
			return true
		})
		if !mentionsLD {
			return
		}
		collect(s.Body, s.Pos())
		switch e := s.Else.(type) {
		case *ast.IfStmt:
			visitIf(e)
		case *ast.BlockStmt:
			collect(e, e.Pos())
		}
	}
	done := false
	ast.Inspect(fi.Decl.Body, func(n ast.Node) bool {
		if s, ok := n.(*ast.IfStmt); ok && !done {
			before := len(arms)
			visitIf(s)
			if len(arms) > before {
				done = true
				return false
			}
		}
		return true
	})
	if len(arms) < 2 {
		r.Ob("arms", p.Pos(fi.Decl.Pos()), false, fmt.Sprintf("%d bulk-density arms with table columns found", len(arms)))
		return
	}
	ref := arms[0]
	starts := map[int64]bool{}
	for i, a := range arms {
		ok := true
		det := ""
		fk, hasFK := a.cols["FK"]
		lim, hasLIM := a.cols["LIM"]
		pv, hasPV := a.cols["PRGES"]
		if !hasFK || !hasLIM || !hasPV {
			ok = false
			det = "the arm does not read field capacity, available water and pore volume"
		} else {
			rf, rl, rp := ref.cols["FK"], ref.cols["LIM"], ref.cols["PRGES"]
			det = fmt.Sprintf("FK wa[%d:%d], nFK wa[%d:%d], PV wa[%d:%d]", fk[0], fk[1], lim[0], lim[1], pv[0], pv[1])
			if lim[0]-fk[0] != rl[0]-rf[0] || pv[0]-fk[0] != rp[0]-rf[0] || fk[1]-fk[0] != rf[1]-rf[0] || lim[1]-lim[0] != rl[1]-rl[0] || pv[1]-pv[0] != rp[1]-rp[0] {
				ok = false
				det += fmt.Sprintf(" — column offsets differ from the first arm (nFK−FK %d vs %d, PV−FK %d vs %d): a value of another density class is mixed in", lim[0]-fk[0], rl[0]-rf[0], pv[0]-fk[0], rp[0]-rf[0])
			}
			if starts[fk[0]] {
				ok = false
				det += " — same column group as another arm"
			}
			starts[fk[0]] = true
		}
		r.Ob(fmt.Sprintf("columns:arm%d", i+1), p.Pos(a.pos), ok, det)
	}
	// LIM ≡ FK − x/100, FK ≡ y/100, PRGES ≡ z/100 (walker, every arm)
	x := walked(p, "hermes.Hydro")
	n := 0
	for _, e := range x.Events {
		if e.Kind != "assign" || e.Root != "GlobalVarsMain.LIM" {
			continue
		}
		n++
		v := e.Val
		ts := v.sortedTerms()
		ok := len(ts) == 2
		// one term is the FK value just stored (forwarded: 1/100·parse), the other −1/100·parse
		pos, neg := 0, 0
		for _, t := range ts {
			if t.C.Cmp(ratFrac(1, 100)) == 0 {
				pos++
			}
			if t.C.Cmp(ratFrac(-1, 100)) == 0 {
				neg++
			}
		}
		ok = ok && pos == 1 && neg == 1
		r.Ob("wilting-point-form", p.Pos(e.Pos), ok, fmt.Sprintf("LIM = %s (must be FK − nFK/100 with FK = col/100)", clip(v.String(), 200)))
	}
	if n == 0 {
		r.Ob("wilting-point-form", "-", false, "no store to LIM in Hydro")
	}
	// the routine is re-run for every horizon whenever the groundwater level changes: what it looks up must
	// depend on the soil description only, never on the parameter values a previous run left behind
	// (later in-place corrections of pore volume and capacity would be applied a second time)
	state := map[string]bool{"FK": true, "LIM": true, "PRGES": true, "WUMAX": true, "W": true, "WMIN": true, "PORGES": true, "NORMFK": true, "WNOR": true, "GRW": true, "GW": true}
	mentionsState := func(c *Cond) string {
		hit := ""
		var rec func(c *Cond)
		rec = func(c *Cond) {
			for _, s := range c.Sub {
				rec(s)
			}
			c.P.walkAtoms(func(a *Atom) {
				if a.Kind == "cell" {
					k := a.Root
					if i := strings.LastIndex(k, "."); i >= 0 && state[k[i+1:]] {
						hit = k
					}
				}
			})
			if c.Kind == "opq" && c.Expr != nil {
				ast.Inspect(c.Expr, func(n ast.Node) bool {
					if se, ok := n.(*ast.SelectorExpr); ok && state[se.Sel.Name] {
						hit = se.Sel.Name
					}
					return true
				})
			}
		}
		rec(c)
		return hit
	}
	nl := 0
	for _, e := range x.Events {
		if e.Kind != "assign" || !(e.Root == "GlobalVarsMain.LIM" || e.Root == "GlobalVarsMain.PRGES" || e.Root == "InputSharedVars.FK" || e.Root == "GlobalVarsMain.WUMAX") {
			continue
		}
		isLookup := false
		e.Val.walkAtoms(func(a *Atom) {
			if a.Kind == "call" && strings.Contains(a.Key, "ValAsFloat") {
				isLookup = true
			}
		})
		if !isLookup {
			continue
		}
		nl++
		bad := ""
		for _, g := range e.Guards {
			if h := mentionsState(g); h != "" {
				bad = h
			}
		}
		for _, L := range e.Loops {
			if L.Cond != nil {
				if h := mentionsState(L.Cond); h != "" {
					bad = h
				}
			}
		}
		r.Ob("lookup-stateless:"+shortRoot(e.Root), p.Pos(e.Pos), bad == "", fmt.Sprintf("table value of %s is looked up under conditions on the soil description only (texture, density class)%s", shortRoot(e.Root), map[bool]string{true: "", false: " — the lookup depends on " + bad + ", a value left by a previous run of the routine: a re-run after a groundwater change skips it and the in-place corrections further down accumulate"}[bad == ""]))
	}
	if nl == 0 {
		r.Ob("lookup-stateless", "-", false, "no table lookups found in Hydro")
	}
}

// ---------------------------------------------------------------- pedotransfer functions

func c15PTF(p *Prog, r *Report) {
	r.Rule("C15.R2b", "pedotransfer functions: for every function the extracted formulas satisfy 0 < wilting point < field capacity < 1 over the whole continuous texture domain (clay, silt, sand ≥ 5 %, sand ≤ 85 %, organic carbon 0–6 %), proved by interval evaluation with subdivision; the two linear functions additionally by coefficient dominance", 12)
	depth := 48
	for _, name := range []string{"PTF1", "PTF2", "PTF3", "PTF4"} {
		fi := p.Funcs["hermes."+name]
		if fi == nil {
			r.Ob(name, "-", false, "hermes."+name+" not found")
			continue
		}
		x := walked(p, "hermes."+name)
		names := paramNames(fi.Decl)
		if len(names) != 3 {
			r.Ob(name, p.Pos(fi.Decl.Pos()), false, "unexpected signature")
			continue
		}
		var fc, wm Poly
		for _, e := range x.Events {
			if e.Kind == "assign" && e.Local != nil {
				switch e.Local.Name() {
				case "fc":
					fc = e.Val
				case "wmin":
					wm = e.Val
				}
			}
		}
		if fc.T == nil || wm.T == nil {
			r.Ob(name, p.Pos(fi.Decl.Pos()), false, "results fc / wmin not found")
			continue
		}
		va := func(n string) *Atom { return varAtom(n) }
		c, a1, a2 := va(names[0]), va(names[1]), va(names[2])
		vars := []*Atom{c, a1, a2}
		box := map[string]Iv{c.Key: {0, 6}, a1.Key: {5, 90}, a2.Key: {5, 90}}
		// third fraction = 100 − a1 − a2 ≥ 5 ; sand ≤ 85
		sum := PAtom(a1).Add(PAtom(a2))
		cons := []ivConstraint{{F: sum.Sub(PInt(95)), Nm: "third fraction ≥ 5"}}
		third := strings.ToUpper(names[2])
		if strings.Contains(third, "SAND") {
			box[a2.Key] = Iv{5, 85}
		} else {
			// sand = 100 − clay − silt ≤ 85  ⇔  15 − clay − silt ≤ 0
			cons = append(cons, ivConstraint{F: PInt(15).Sub(sum), Nm: "sand ≤ 85"})
		}
		goals := []ivGoal{
			{Name: "wmin>0", F: wm, Op: ">", C: 0},
			{Name: "fc>wmin", F: fc.Sub(wm), Op: ">", C: 0},
			{Name: "fc<1", F: fc, Op: "<", C: 1},
		}
		for _, g := range goals {
			res := proveOnBox(g, vars, box, cons, depth, nil)
			det := fmt.Sprintf("%s over C∈[0,6], %s∈[%g,%g], %s∈[%g,%g], %v: ", g.Name, names[1], box[a1.Key].Lo, box[a1.Key].Hi, names[2], box[a2.Key].Lo, box[a2.Key].Hi, consNames(cons))
			if res.Proved {
				det += fmt.Sprintf("proved on %d boxes (depth ≤ %d); value ∈ [%.5g, %.5g]", res.Boxes, res.MaxDepth, res.Bound.Lo, res.Bound.Hi)
			} else {
				det += fmt.Sprintf("NOT established after %d boxes: on %s the value is only known to lie in [%.5g, %.5g] %s", res.Boxes, boxString(res.FailBox), res.FailValue.Lo, res.FailValue.Hi, res.Err)
			}
			r.Ob(name+":"+g.Name, p.Pos(fi.Decl.Pos()), res.Proved, det)
		}
		// linear functions: coefficient dominance (a certificate readable without the box)
		lin := true
		for _, q := range []Poly{fc, wm} {
			for _, t := range q.T {
				deg := 0
				for _, f := range t.M {
					deg += f.E
					if f.E < 0 || f.A.Kind != "var" {
						lin = false
					}
				}
				if deg > 1 {
					lin = false
				}
			}
		}
		if lin {
			d := fc.Sub(wm)
			okD, okW := true, true
			for _, t := range d.T {
				if t.C.Sign() < 0 {
					okD = false
				}
			}
			for _, t := range wm.T {
				if t.C.Sign() < 0 {
					okW = false
				}
			}
			r.Ob(name+":dominance", p.Pos(fi.Decl.Pos()), okD && okW, fmt.Sprintf("linear: fc − wmin = %s and wmin = %s have only non-negative coefficients: %v / %v", d, wm, okD, okW))
		}
	}
}

func consNames(cs []ivConstraint) []string {
	var o []string
	for _, c := range cs {
		o = append(o, c.Nm)
	}
	return o
}

// ---------------------------------------------------------------- saturation

func c15Saturation(p *Prog, r *Report, rule string) {
	r.Rule(rule, "below the groundwater table field capacity equals pore volume: the saturation routine sets W ≡ PORGES for every layer strictly below the table's layer down to the last one and a convex blend in the table's layer; the daily update imposes the saturated water content for layers at or below the table in the same branch", 3)
	x := walked(p, "hermes.setFieldCapacityWithGW")
	if x == nil {
		r.Ob("setFieldCapacityWithGW", "-", false, "not found")
		return
	}
	var full, blend *Event
	for _, e := range x.Events {
		if e.Kind != "assign" || e.Root != "GlobalVarsMain.W" || len(e.Loops) == 0 {
			continue
		}
		v := stripVersions(e.Val)
		if len(e.Idx) == 1 && v.Equal(cellP("GlobalVarsMain.PORGES", stripVersions(e.Idx[0]))) {
			full = e
		} else {
			blend = e
		}
	}
	if full == nil {
		r.Ob("saturate", "-", false, "no store W[l] = PORGES[l] in a loop")
	} else {
		L := full.Loops[len(full.Loops)-1]
		lo, hi, unit, why := loopBounds(x, L)
		ok := why == "" && unit
		det := ""
		if ok {
			first := stripVersions(lo)
			want := PCall("int", cellP("GlobalVarsMain.GRW").Add(PInt(1)))
			okLo := first.Equal(want)
			okHi := stripVersions(hi).Equal(cellP("GlobalVarsMain.N"))
			okIdx := stripVersions(full.Idx[0]).Equal(PAtom(L.Var).Sub(PInt(1)))
			ok = okLo && okHi && okIdx
			det = fmt.Sprintf("layers l = %s..%s (1-based), store index %s; starts at the table's layer int(GRW+1): %v, reaches the last layer N: %v", lo, hi, full.Idx[0], okLo, okHi)
			// the full arm is taken for every layer except the first
			okArm := guardedBy(full, PAtom(L.Var).Sub(lo), token.NEQ) || full.HasGuard(func(c *Cond) bool {
				return c.Kind == "cmp" && c.Op == token.NEQ && stripVersions(c.P).Equal(mkCmp(PAtom(L.Var), first, token.NEQ, nil).P)
			})
			if !okArm {
				ok = false
				det += "; the saturated arm is not the complement of the table's layer"
			}
		} else {
			det = "loop not recognised: " + why
		}
		r.Ob("saturate", p.Pos(full.Pos), ok, det)
	}
	if blend != nil {
		// convex: (1−m)·PORGES + m·W with m = mod(GRW+1, 1)
		v := stripVersions(blend.Val)
		idx := stripVersions(blend.Idx[0])
		m := PCall("mod", cellP("GlobalVarsMain.GRW").Add(PInt(1)), PInt(1))
		want := PInt(1).Sub(m).Mul(cellP("GlobalVarsMain.PORGES", idx)).Add(m.Mul(cellP("GlobalVarsMain.W", idx)))
		r.Ob("blend", p.Pos(blend.Pos), v.Equal(want), fmt.Sprintf("table's layer: W = %s (must be (1−m)·PORGES + m·W with m the fractional part of the level)", clip(v.String(), 200)))
	} else {
		r.Ob("blend", "-", false, "no blend for the table's layer")
	}
	// Run imposes WG[1][z] = W[z] for z+1 >= GRW after the saturation call
	run := walked(p, "hermes.HermesSession.Run")
	found := false
	if run != nil {
		var call *Event
		for _, e := range run.Events {
			if e.Kind == "call" && e.Name == "hermes.setFieldCapacityWithGW" {
				call = e
			}
		}
		for _, e := range run.Events {
			if call == nil || e.Seq < call.Seq || e.Kind != "assign" || e.Root != "GlobalVarsMain.WG" || len(e.Idx) != 2 {
				continue
			}
			v := stripVersions(e.Val)
			if !v.Equal(cellP("GlobalVarsMain.W", stripVersions(e.Idx[1]))) {
				continue
			}
			found = true
			z := stripVersions(e.Idx[1])
			g := mkCmp(z.Add(PInt(1)), cellP("GlobalVarsMain.GRW"), token.GEQ, nil)
			okG := e.HasGuard(func(c *Cond) bool {
				return c.Kind == "cmp" && stripVersions(c.P).Equal(g.P) && c.Op == g.Op
			})
			one, _ := e.Idx[0].ConstInt()
			// in the same "level changed" branch as the call
			same := true
			ck := map[string]bool{}
			for _, c := range flattenGuards(e.Guards) {
				ck[c.Key()] = true
			}
			for _, c := range flattenGuards(call.Guards) {
				if !ck[c.Key()] {
					same = false
				}
			}
			r.Ob("water-content", p.Pos(e.Pos), okG && one == 1 && same, fmt.Sprintf("WG[%s][z] = W[z] under layer number z+1 ≥ GRW: %v, in the branch of the saturation call: %v", e.Idx[0], okG, same))
			break
		}
	}
	if !found {
		r.Ob("water-content", "-", false, "the daily update does not impose the saturated water content after the saturation call")
	}
}

// ---------------------------------------------------------------- history independence

func c15History(p *Prog, r *Report, rule string) {
	r.Rule(rule, "history independence of the moving groundwater table: backups are written only by the input routine, from the final unsaturated parameters; when the level changes every layer 0..N−1 of all four parameter arrays is rewritten from the backups (or recomputed from the texture table exactly as the input routine does) before the saturation routine, which is the only other writer of field capacity on the run path; the start state is saturated relative to the start level, with the layer convention of the daily update; the table row is read on every call", 11)
	fx := p.Fields()
	for _, f := range []string{"W_Backup", "WMIN_Backup", "PORGES_Backup", "WNOR_Backup"} {
		for _, w := range fx.Writers(FieldRef{"GlobalVarsMain", f}) {
			if strings.HasPrefix(w.Key, "hermes.NewDefault") || w.Key == "hermes.NewGlobalVarsMain" {
				continue
			}
			r.Ob("backup-writer:"+f+":"+strings.TrimPrefix(w.Key, "hermes."), p.Pos(w.Decl.Pos()), w.Key == "hermes.Input", "backups may only be written by the input routine")
		}
	}
	// start state: after Init has placed the table (its last store to the level), the saturation routine is applied,
	// unconditionally — the input routine saturated relative to the level of the soil/polygon/series file, which for a
	// series is the first record and not the level of the start day
	if ix := walked(p, "hermes.Init"); ix != nil {
		lastGRW := -1
		for _, e := range ix.Events {
			if e.Kind == "assign" && e.Root == "GlobalVarsMain.GRW" && e.Seq > lastGRW {
				lastGRW = e.Seq
			}
		}
		okS, pos := false, "-"
		for _, e := range ix.Events {
			nonLoop := 0
			for _, g := range flattenGuards(e.Guards) {
				if !g.Loop {
					nonLoop++
				}
			}
			if e.Kind == "call" && e.Name == "hermes.setFieldCapacityWithGW" && e.Seq > lastGRW && len(e.Loops) == 0 && nonLoop == 0 {
				okS, pos = true, p.Pos(e.Pos)
			}
		}
		r.Ob("start:saturation", pos, okS, fmt.Sprintf("Init applies the saturation routine unconditionally after it has set the start level: %v", okS))
	}
	// the start state and the daily update use one convention for "which layer is the first one below the table":
	// a run that starts on a level and later returns to it must find the same field capacities
	// (clause of C15 only: under C06 the bound is whatever field capacity the day uses)
	if strings.HasPrefix(rule, "C15.") {
		loOf := func(key, root string) (Poly, token.Pos, bool) {
			x := walked(p, key)
			if x == nil {
				return Poly{}, token.NoPos, false
			}
			for _, e := range x.Events {
				if e.Kind != "assign" || e.Root != "GlobalVarsMain.W" || len(e.Idx) != 1 || len(e.Loops) == 0 {
					continue
				}
				v := stripVersions(e.Val)
				if !v.Equal(stripVersions(cellP("GlobalVarsMain.PORGES", e.Idx[0]))) {
					continue
				}
				L := e.Loops[len(e.Loops)-1]
				lo, _, _, why := loopBounds(x, L)
				if why != "" || L.Var == nil {
					continue
				}
				// first saturated layer (1-based): lower bound of the loop variable plus the index offset + 1
				off := e.Idx[0].Sub(PAtom(L.Var))
				return stripVersions(lo.Add(off).Add(PInt(1))), e.Pos, true
			}
			return Poly{}, token.NoPos, false
		}
		inLo, inPos, ok1 := loOf("hermes.Input", "")
		upLo, _, ok2 := loOf("hermes.setFieldCapacityWithGW", "")
		same := false
		det := "saturation loops not recognised"
		if ok1 && ok2 {
			// the input routine works relative to GW, the update relative to GRW: rename before comparing
			ren := func(q Poly) Poly {
				return q.Subst(func(a *Atom) (Poly, bool) {
					if a.Kind == "cell" && a.Root == "GlobalVarsMain.GRW" && len(a.Idx) == 0 {
						return cellP("GlobalVarsMain.GW"), true
					}
					return Poly{}, false
				})
			}
			a, b := ren(inLo), ren(upLo)
			// the update's first (blended) layer is int(level+1); fully saturated layers start one below
			same = a.Equal(b) || a.Equal(b.Add(PInt(1)))
			det = fmt.Sprintf("input routine saturates from layer %s, the daily update from layer %s (blend layer) / %s (full)", clip(a.String(), 80), clip(b.String(), 60), clip(b.Add(PInt(1)).String(), 60))
		}
		pos := "-"
		if ok1 {
			pos = p.Pos(inPos)
		}
		r.Ob("start:same-convention", pos, same, "field capacity below the table at the start and after a level change: "+det)
	}
	if strings.HasPrefix(rule, "C15.") {
		c15Recompute(p, r)
		c15RecomputeRest(p, r)
	}
	// the texture-table route reads its row on every call: the loop that assigns the table values is entered
	// unconditionally (some parameters are afterwards corrected in place, e.g. pore volume += humus term: a call
	// that skips the lookup corrects the already corrected value of the previous call)
	if hfi := p.Funcs["hermes.Hydro"]; hfi != nil {
		hinfo := hfi.Pkg.TypesInfo
		var loop *ast.ForStmt
		ast.Inspect(hfi.Decl.Body, func(n ast.Node) bool {
			f, ok := n.(*ast.ForStmt)
			if !ok || loop != nil {
				return true
			}
			has := false
			ast.Inspect(f.Body, func(m ast.Node) bool {
				if as, ok := m.(*ast.AssignStmt); ok && len(as.Lhs) == 1 && fieldOf(hinfo, as.Lhs[0]) == "PRGES" {
					has = true
				}
				return true
			})
			if has {
				loop = f
			}
			return true
		})
		if loop == nil {
			r.Ob("table-lookup:every-call", p.Pos(hfi.Decl.Pos()), false, "the loop that reads the texture table row was not found in Hydro")
		} else {
			conds, loops := astPathConds(hinfo, hfi.Decl.Body, loop)
			ok := loop.Cond == nil && len(conds) == 0 && len(loops) == 0
			det := "for { … } reached unconditionally"
			if !ok {
				c := "-"
				if loop.Cond != nil {
					c = types.ExprString(loop.Cond)
				}
				det = fmt.Sprintf("loop condition %s, enclosing conditions [%s]", c, joinConds(conds))
			}
			r.Ob("table-lookup:every-call", p.Pos(loop.Pos()), ok, "the texture-table row is looked up on every call of the routine: "+det)
		}
	}
	// the route flag that selects "recompute from the table" or "restore from the backups" describes the whole
	// profile: it must not be decided by whichever horizon the input loop visited last
	if in := walked(p, "hermes.Input"); in != nil {
		vals := map[string]string{}
		for _, e := range in.Events {
			if e.Kind != "assign" || e.Root != "GlobalVarsMain.CAPPAR" || len(e.Loops) == 0 {
				continue
			}
			perItem := false
			for _, g := range flattenGuards(e.Guards) {
				if g.Loop {
					continue
				}
				condAtoms(g, func(a *Atom) {
					if a.Kind == "cell" {
						for _, ix := range a.Idx {
							ix.walkAtoms(func(b *Atom) {
								if b.Kind == "loop" {
									perItem = true
								}
							})
						}
					}
				})
			}
			if perItem {
				vals[e.Val.String()] = p.Pos(e.Pos)
			}
		}
		var vs []string
		for v, ps := range vals {
			vs = append(vs, v+" at "+ps)
		}
		sort.Strings(vs)
		r.Ob("route-flag:CAPPAR", "-", len(vals) <= 1, fmt.Sprintf("values the per-horizon arms of the input loop store into the profile-wide route flag: %s — with two different values the last horizon decides, and a profile that mixes horizons with explicit values and table horizons has its explicit horizons overwritten with table values (or its table horizons frozen) at the first change of the groundwater level", orStr(strings.Join(vs, "; "), "none")))
	}
	// writers of W on the run path
	okW := map[string]string{"hermes.Input": "parameter assignment per route, saturation at start", "hermes.HermesSession.Run": "daily groundwater update (restore / recompute)", "hermes.setFieldCapacityWithGW": "saturation below the table"}
	for _, w := range fx.Writers(FieldRef{"GlobalVarsMain", "W"}) {
		if strings.HasPrefix(w.Key, "hermes.NewDefault") || w.Key == "hermes.NewGlobalVarsMain" {
			continue
		}
		reason, ok := okW[w.Key]
		r.Ob("W-writer:"+strings.TrimPrefix(w.Key, "hermes."), p.Pos(w.Decl.Pos()), ok, orStr(reason, "not a confirmed writer of field capacity"))
	}
	in := walked(p, "hermes.Input")
	run := walked(p, "hermes.HermesSession.Run")
	if in == nil || run == nil {
		return
	}
	pairs := [][2]string{{"GlobalVarsMain.W", "GlobalVarsMain.W_Backup"}, {"GlobalVarsMain.WMIN", "GlobalVarsMain.WMIN_Backup"}, {"GlobalVarsMain.PORGES", "GlobalVarsMain.PORGES_Backup"}, {"GlobalVarsMain.WNOR", "GlobalVarsMain.WNOR_Backup"}}
	// backups: B[i] = X[i] for i = 0..N−1, after every route's store to X and before the start saturation
	for _, pr := range pairs {
		var b *Event
		for _, e := range in.Events {
			if e.Kind == "assign" && e.Root == pr[1] {
				b = e
			}
		}
		if b == nil || len(b.Loops) == 0 {
			r.Ob("backup:"+shortRoot(pr[1]), "-", false, "backup store not found")
			continue
		}
		L := b.Loops[len(b.Loops)-1]
		lo, hi, unit, why := loopBounds(in, L)
		ok := why == "" && unit && lo.IsZero() && headerBoundField(in, L) == "N" && hi.Add(PInt(1)).single() != nil
		ok = ok && len(b.Idx) == 1 && b.Idx[0].Equal(PAtom(L.Var)) && stripVersions(b.Val).Equal(cellP(pr[0], PAtom(L.Var)))
		// order: after the last route store, before the saturation store W = PORGES
		for _, e := range in.Events {
			if e.Kind == "assign" && e.Root == pr[0] && len(e.Idx) == 1 {
				isSat := pr[0] == "GlobalVarsMain.W" && stripVersions(e.Val).Equal(cellP("GlobalVarsMain.PORGES", stripVersions(e.Idx[0])))
				if isSat && e.Seq < b.Seq {
					ok = false
				}
				if !isSat && e.Seq > b.Seq {
					ok = false
				}
			}
		}
		r.Ob("backup:"+shortRoot(pr[1]), p.Pos(b.Pos), ok, fmt.Sprintf("%s[i] = %s for i = %s..%s, after all parameter routes and before the saturation at start", shortRoot(pr[1]), b.Val, polyOr(lo), polyOr(hi)))
	}
	// the level-changed branch in Run
	var sat *Event
	for _, e := range run.Events {
		if e.Kind == "call" && e.Name == "hermes.setFieldCapacityWithGW" {
			sat = e
		}
	}
	if sat == nil {
		r.Ob("update", "-", false, "the daily update does not call the saturation routine")
		return
	}
	// guard: level changed
	changed := sat.HasGuard(func(c *Cond) bool {
		return c.Kind == "cmp" && c.Op == token.NEQ && c.P.MentionsRoot("GlobalVarsMain.GRW")
	})
	r.Ob("update:trigger", p.Pos(sat.Pos), changed && len(inLoopGuards(sat, dayLoop(run))) == 1, "the update runs whenever the level differs from yesterday's and only then: "+guardKeysOf(inLoopGuards(sat, dayLoop(run))))
	// restore arm
	for _, pr := range pairs {
		var e *Event
		for _, c := range run.Events {
			if c.Kind == "assign" && c.Root == pr[0] && c.Seq < sat.Seq && c.Val.MentionsRoot(pr[1]) {
				e = c
			}
		}
		if e == nil || len(e.Loops) == 0 {
			r.Ob("restore:"+shortRoot(pr[0]), "-", false, "no restore from "+shortRoot(pr[1])+" before the saturation call")
			continue
		}
		L := e.Loops[len(e.Loops)-1]
		lo, hi, unit, why := loopBounds(run, L)
		ok := why == "" && unit && lo.IsZero() && stripVersions(hi).Equal(cellP("GlobalVarsMain.N").Sub(PInt(1)))
		ok = ok && len(e.Idx) == 1 && e.Idx[0].Equal(PAtom(L.Var)) && stripVersions(e.Val).Equal(cellP(pr[1], PAtom(L.Var)))
		r.Ob("restore:"+shortRoot(pr[0]), p.Pos(e.Pos), ok, fmt.Sprintf("%s[i] = %s for i = %s..%s (must cover every layer 0..N−1: a layer left out keeps the saturation of the previous level)", shortRoot(pr[0]), stripVersions(e.Val), polyOr(lo), polyOr(hi)))
	}
	// recompute arm ≡ input routine's table route
	for _, pr := range pairs {
		var re, ie *Event
		for _, c := range run.Events {
			if c.Kind == "assign" && c.Root == pr[0] && c.Seq < sat.Seq && !c.Val.MentionsRoot(pr[1]) && len(c.Loops) >= 3 {
				re = c
			}
		}
		for _, c := range in.Events {
			if c.Kind == "assign" && c.Root == pr[0] && c.Val.MentionsRoot("GlobalVarsMain.STEIN") {
				ie = c
			}
		}
		if re == nil || ie == nil {
			r.Ob("recompute:"+shortRoot(pr[0]), "-", false, "recompute store or the input routine's table-route store not found")
			continue
		}
		same := sameShape(stripVersions(re.Val), stripVersions(ie.Val))
		// the layer-range guard (which 10 cm layers of the horizon get the parameters) must be the input routine's
		rg, ig := layerGuards(run, re), layerGuards(in, ie)
		sameG := rg == ig && rg != ""
		r.Ob("recompute:"+shortRoot(pr[0]), p.Pos(re.Pos), same && sameG, fmt.Sprintf("daily recompute %s = %s; input routine %s — same formula: %v; layer-range guard {%s} vs input routine {%s}: %v (a layer left out keeps the saturation of the previous level)", re.Target(), stripVersions(re.Val), stripVersions(ie.Val), same, rg, ig, sameG))
	}
}

// layerGuards renders, as written in the source, the comparison guards of e that bound the layer number by
// the number of layers (they mention the field N).
func layerGuards(x *Exec, e *Event) string {
	var out []string
	for _, g := range flattenGuards(e.Guards) {
		if g.Loop || g.Kind != "cmp" || g.Expr == nil {
			continue
		}
		mentionsN := false
		ast.Inspect(g.Expr, func(n ast.Node) bool {
			if se, ok := n.(*ast.SelectorExpr); ok && se.Sel.Name == "N" {
				mentionsN = true
			}
			return true
		})
		if mentionsN {
			out = append(out, strings.ReplaceAll(types.ExprString(g.Expr), " ", ""))
		}
	}
	sort.Strings(out)
	return strings.Join(out, " && ")
}

// headerBoundField returns the field name of the bound written in a loop header "v < x.F".
func headerBoundField(x *Exec, L *LoopCtx) string {
	if L.Cond == nil {
		return ""
	}
	if be, ok := L.Cond.Expr.(*ast.BinaryExpr); ok && be.Op == token.LSS {
		return fieldOf(x.Info, be.Y)
	}
	return ""
}

// sameShape compares two normal forms after renaming loop/local atoms positionally.
func sameShape(a, b Poly) bool {
	norm := func(q Poly) string {
		names := map[string]string{}
		var ks []string
		q.walkAtoms(func(at *Atom) {
			if at.Kind == "loop" || at.Kind == "var" || at.Kind == "phi" {
				if _, ok := names[at.Key]; !ok {
					names[at.Key] = ""
					ks = append(ks, at.Key)
				}
			}
		})
		sort.Strings(ks)
		s := q.String()
		for i, k := range ks {
			s = strings.ReplaceAll(s, k, fmt.Sprintf("$%d", i))
		}
		return s
	}
	if norm(a) == norm(b) {
		return true
	}
	// loop variables may sort differently: compare with atoms erased
	erase := func(q Poly) string {
		s := q.String()
		q.walkAtoms(func(at *Atom) {
			if at.Kind == "loop" || at.Kind == "var" || at.Kind == "phi" {
				s = strings.ReplaceAll(s, at.Key, "$")
			}
		})
		return s
	}
	return erase(a) == erase(b)
}

// c15PTFArgs: the interval proof of R2b is about each function over its own
// parameter domain; it only transfers to the simulation if each call hands the
// texture fractions to the parameters of the same meaning.
var textureRole = map[string]string{
	"CGEHALT": "organic carbon", "CORG": "organic carbon", "OC": "organic carbon", "C": "organic carbon",
	"TON": "clay", "CLAY": "clay", "SLUF": "silt", "SILT": "silt", "SCHLUFF": "silt", "SSAND": "sand", "SAND": "sand",
}

func c15PTFArgs(p *Prog, r *Report) {
	r.Rule("C15.R2c", "pedotransfer call sites: each call passes organic carbon, clay and silt/sand of the same horizon to the parameter of the same meaning (roles read from the parameter and field names through a synonym table; an unknown name is reported, not guessed)", 4)
	x := walked(p, "hermes.Input")
	if x == nil {
		return
	}
	n := 0
	for _, e := range x.Events {
		if e.Kind != "call" || e.Callee == nil || !strings.HasPrefix(e.Name, "hermes.PTF") || e.Call == nil {
			continue
		}
		fi := p.ByObj[e.Callee]
		if fi == nil {
			continue
		}
		n++
		names := paramNames(fi.Decl)
		ok := len(names) == len(e.Call.Args)
		det := ""
		var idx0 string
		for i, a := range e.Call.Args {
			if i >= len(names) {
				break
			}
			pr, okP := textureRole[strings.ToUpper(names[i])]
			af := fieldOf(x.Info, a)
			ar, okA := textureRole[strings.ToUpper(af)]
			det += fmt.Sprintf("%s(%s) ← %s(%s); ", names[i], pr, af, ar)
			if !okP || !okA || pr != ar {
				ok = false
			}
			// same horizon index on all arguments
			if ie, isIdx := a.(*ast.IndexExpr); isIdx {
				ix := types.ExprString(ie.Index)
				if idx0 == "" {
					idx0 = ix
				} else if ix != idx0 {
					ok = false
					det += "(different horizon index) "
				}
			}
		}
		r.Ob("args:"+strings.TrimPrefix(e.Name, "hermes."), p.Pos(e.Pos), ok, det)
	}
	if n == 0 {
		r.Ob("args", "-", false, "no pedotransfer call found in the input routine")
	}
}

// ---------------------------------------------------------------- texture table: corrections keep the order

// c15TableOrder: the table values themselves are data, but the routine adds corrections to them afterwards
// (organic matter and groundwater classes raise the field capacity by KRR, organic matter raises the pore
// volume of sands by KRG).  KRR and KRG are chosen in unrelated branches, so field capacity <= pore volume
// survives only if the routine caps the corrected field capacity at the corrected pore volume.
func c15TableOrder(p *Prog, r *Report) {
	r.Rule("C15.R2d", "texture table: after the corrections added to the looked-up values, the field capacity the routine hands over is capped at the pore volume it hands over (cap idiom on the same horizon, after the last store of both, under no other condition)", 1)
	x := walked(p, "hermes.Hydro")
	if x == nil {
		r.Ob("Hydro", "-", false, "hermes.Hydro not found")
		return
	}
	var lastFC, lastPV, cap *Event
	for _, e := range x.Events {
		if e.Kind != "assign" || len(e.Loops) != 0 {
			continue
		}
		switch e.Root {
		case "GlobalVarsMain.FELDW":
			if isCapStore(e) {
				cap = e
			} else {
				lastFC = e
				cap = nil
			}
		case "GlobalVarsMain.PRGES":
			lastPV = e
			cap = nil
		}
	}
	if lastFC == nil || lastPV == nil {
		r.Ob("fc<=pv", "-", false, "the stores of the corrected field capacity and pore volume were not found in Hydro")
		return
	}
	ok := cap != nil
	det := fmt.Sprintf("field capacity = %s; pore volume = %s", clip(stripVersions(lastFC.Val).String(), 90), clip(stripVersions(lastPV.Val).String(), 90))
	if cap != nil {
		sameIdx := len(cap.Idx) == len(lastPV.Idx) && len(cap.Idx) == 1 && cap.Idx[0].Equal(lastPV.Idx[0]) && cap.Idx[0].Equal(lastFC.Idx[0])
		toPV := stripVersions(cap.Val).Equal(stripVersions(lastPV.Val))
		plain := len(branchKeys(cap, cap.Old.Sub(cap.Val))) == 0
		ok = sameIdx && toPV && plain
		det += fmt.Sprintf("; cap found (same horizon: %v, bound is the pore volume: %v, unconditional: %v)", sameIdx, toPV, plain)
	} else {
		det += "; no cap of the field capacity at the pore volume follows: the field-capacity correction (up to +13 Vol%) and the pore-volume correction (0 for silt, loam and clay) are chosen independently, so field capacity can exceed pore volume"
	}
	r.Ob("fc<=pv", p.Pos(lastFC.Pos), ok, det)
}

// ---------------------------------------------------------------- R1b stone scaling of the threshold

// scaleOf returns val / (cell of root mentioned in val), with indices and versions erased.
func scaleOf(val Poly, root string) (Poly, bool) {
	var cell *Atom
	val.walkAtoms(func(a *Atom) {
		if a.Kind == "cell" && a.Root == root && cell == nil {
			cell = a
		}
	})
	if cell == nil {
		return Poly{}, false
	}
	q := stripVersions(val).Div(stripVersions(PAtom(cell)))
	return eraseIdx(q), true
}

func eraseIdx(q Poly) Poly {
	return q.Subst(func(a *Atom) (Poly, bool) {
		if a.Kind == "cell" && len(a.Idx) > 0 {
			return cellP(a.Root), true
		}
		return Poly{}, false
	})
}

// c15StoneScale: on the texture-table route the layer values are the table
// values times (1 − stone fraction).  The threshold helper must be fed values
// carrying the same factor, otherwise the threshold is compared (in mineral
// and Nitro) with layer values on another scale and, with stones in the top
// horizon, leaves the interval (wilting point, field capacity).
func c15StoneScale(p *Prog, r *Report) {
	r.Rule("C15.R1b", "stone correction of the threshold on the texture-table route: the wilting point and field capacity handed to the threshold helper carry the same factor relative to the table values as the layer values stored for the simulation (table value × (1 − stone fraction))", 2)
	in := walked(p, "hermes.Input")
	hy := walked(p, "hermes.Hydro")
	if in == nil || hy == nil {
		r.Ob("walk", "-", false, "Input/Hydro not analysable")
		return
	}
	layer := map[string]Poly{}
	for _, e := range in.Events {
		if e.Kind != "assign" {
			continue
		}
		switch e.Root {
		case "GlobalVarsMain.WMIN":
			if s, ok := scaleOf(e.Val, "GlobalVarsMain.LIM"); ok {
				layer["wp"] = s
			}
		case "GlobalVarsMain.W":
			if s, ok := scaleOf(e.Val, "GlobalVarsMain.FELDW"); ok {
				layer["fc"] = s
			}
		}
	}
	n := 0
	for _, e := range hy.Events {
		if e.Kind != "call" || e.Name != "hermes.calcWRed" || len(e.Args) < 2 {
			continue
		}
		n++
		for i, it := range []struct{ k, root string }{{"wp", "GlobalVarsMain.LIM"}, {"fc", "InputSharedVars.FK"}} {
			s, ok := scaleOf(e.Args[i], it.root)
			want, has := layer[it.k]
			okS := false
			det := ""
			if !ok || !has {
				det = fmt.Sprintf("argument %s or the layer store of the table route not recognised", clip(e.Args[i].String(), 60))
			} else {
				// the helper takes percent: factor 100 relative to the fraction the layers hold
				okS = s.Equal(want.Scale(ratInt(100)))
				det = fmt.Sprintf("threshold helper gets table value × (%s); the layers hold table value × (%s) (the helper expects percent, so the factor must be 100 × the layers' factor)", s, want)
			}
			r.Ob("stone-scale:"+it.k, p.Pos(e.Pos), okS, det)
		}
	}
	if n == 0 {
		r.Ob("stone-scale", "-", false, "no call of the threshold helper in Hydro")
	}
}

// dimensionless fractions that may multiply a capacity value without changing its unit
var c15Dimless = map[string]bool{"GlobalVarsMain.STEIN": true}

// factoredScale handles S·q(dimensionless) with one seeded atom S common to all terms.
func factoredScale(a Poly) (float64, string, bool) {
	var S *Atom
	for _, t := range a.T {
		var s *Atom
		for _, f := range t.M {
			if _, ok := atomUnit(f.A); ok && f.E == 1 {
				s = f.A
			}
		}
		if s == nil || (S != nil && s != S) {
			return 0, "", false
		}
		S = s
	}
	if S == nil {
		return 0, "", false
	}
	q := a.Div(PAtom(S))

	bad := false
	for _, t := range q.T {
		for _, f := range t.M {
			if !(f.A.Kind == "cell" && c15Dimless[f.A.Root]) || f.E < 1 {
				bad = true
			}
		}
	}
	if bad {
		return 0, "", false
	}
	c0 := q.Subst(func(at *Atom) (Poly, bool) {
		if at.Kind == "cell" && c15Dimless[at.Root] {
			return PZero(), true
		}
		return Poly{}, false
	})
	c, ok := c0.Const()
	if !ok || c.Sign() <= 0 {
		return 0, "", false
	}
	u, _ := atomUnit(S)
	cf, _ := c.Float64()
	return cf * u, S.Key, true
}

// ---------------------------------------------------------------- pedotransfer route: pore volume holds the field capacity

// c15PTFPoreVolume: on the pedotransfer route the field capacity comes from the transfer function and the pore volume
// from the soil file; nothing relates them unless the input routine does.  Demanded: in the block that stores the pore
// volume from the soil file under "a transfer function is selected", a later statement of the same block either ends
// the run with an error when the pore volume is below the field capacity of the same layer, or caps the field capacity
// at the pore volume; no store of either follows it in that block.
func c15PTFPoreVolume(p *Prog, r *Report) {
	r.Rule("C15.R2e", "pedotransfer route: the pore volume copied from the soil file is compared with the field capacity of the transfer function for the same layer, and a pore volume below it ends the run with an error (or the field capacity is capped at it) before either is used; no later store of either in that block", 1)
	fi := p.Funcs["hermes.Input"]
	if fi == nil {
		r.Ob("ptf:fc<=pv", "-", false, "hermes.Input not found")
		return
	}
	info := fi.Pkg.TypesInfo
	fieldOf := func(e ast.Expr) (string, string) { // field name, index text of g.F[idx]
		ix, ok := e.(*ast.IndexExpr)
		if !ok {
			return "", ""
		}
		se, ok := ix.X.(*ast.SelectorExpr)
		if !ok {
			return "", ""
		}
		if sel, ok := info.Selections[se]; !ok || sel.Kind() != types.FieldVal {
			return "", ""
		}
		return se.Sel.Name, types.ExprString(ix.Index)
	}
	mentionsField := func(n ast.Node, name string) bool {
		f := false
		ast.Inspect(n, func(m ast.Node) bool {
			if se, ok := m.(*ast.SelectorExpr); ok && se.Sel.Name == name {
				if sel, ok := info.Selections[se]; ok && sel.Kind() == types.FieldVal {
					f = true
				}
			}
			return true
		})
		return f
	}
	found := 0
	ast.Inspect(fi.Decl.Body, func(n ast.Node) bool {
		blk, ok := n.(*ast.BlockStmt)
		if !ok {
			return true
		}
		for i, st := range blk.List {
			as, ok := st.(*ast.AssignStmt)
			if !ok || len(as.Lhs) != 1 || len(as.Rhs) != 1 {
				continue
			}
			name, idx := fieldOf(as.Lhs[0])
			if name != "PORGES" || !mentionsField(as.Rhs[0], "GPV") {
				continue
			}
			// only the arm in which a transfer function is selected: the path conditions mention PTF and the block
			// (or an earlier sibling) stores the field capacity from a PTFn call
			conds, _ := astPathConds(info, fi.Decl.Body, st)
			onPTF := false
			for _, c := range conds {
				if !mentionsField(c.E, "PTF") {
					continue
				}
				// "PTF == 0" taken positively is the route without a transfer function
				if be, isBe := c.E.(*ast.BinaryExpr); isBe && be.Op == token.EQL && !c.Neg {
					if tv, has := info.Types[be.Y]; has && tv.Value != nil && tv.Value.String() == "0" {
						continue
					}
				}
				onPTF = true
			}
			if !onPTF {
				continue
			}
			found++
			ok, det := false, "no statement after the store compares the pore volume with the field capacity of the layer"
			for j := i + 1; j < len(blk.List); j++ {
				// a later store of W or PORGES in the block voids an earlier check
				if as2, isAs := blk.List[j].(*ast.AssignStmt); isAs {
					for _, l := range as2.Lhs {
						if nm, _ := fieldOf(l); (nm == "W" || nm == "PORGES") && ok {
							ok, det = false, "the field capacity or pore volume is stored again after the comparison at "+p.Pos(as2.Pos())
						}
					}
				}
				is, isIf := blk.List[j].(*ast.IfStmt)
				if !isIf || is.Init != nil {
					continue
				}
				be, isBe := is.Cond.(*ast.BinaryExpr)
				if !isBe {
					continue
				}
				ln, li := fieldOf(be.X)
				rn, ri := fieldOf(be.Y)
				below := (ln == "PORGES" && rn == "W" && (be.Op == token.LSS || be.Op == token.LEQ)) || (ln == "W" && rn == "PORGES" && (be.Op == token.GTR || be.Op == token.GEQ))
				if !below || li != idx || ri != idx {
					continue
				}
				// body: error return, or cap
				if terminates(info, is.Body) && len(is.Body.List) > 0 {
					if ret, isRet := is.Body.List[len(is.Body.List)-1].(*ast.ReturnStmt); isRet && len(ret.Results) == 1 {
						if id, isId := ret.Results[0].(*ast.Ident); !(isId && id.Name == "nil") {
							ok, det = true, "a pore volume below the field capacity of the same layer ends the run with an error at "+p.Pos(is.Pos())
						}
					}
				} else if len(is.Body.List) == 1 {
					if cs, isAs := is.Body.List[0].(*ast.AssignStmt); isAs && len(cs.Lhs) == 1 && len(cs.Rhs) == 1 {
						cn, ci := fieldOf(cs.Lhs[0])
						vn, vi := fieldOf(cs.Rhs[0])
						if cn == "W" && vn == "PORGES" && ci == idx && vi == idx {
							ok, det = true, "the field capacity is capped at the pore volume of the same layer at "+p.Pos(is.Pos())
						}
					}
				}
			}
			r.Ob("ptf:fc<=pv", p.Pos(st.Pos()), ok, det)
		}
		return true
	})
	if found == 0 {
		r.Ob("ptf:fc<=pv", "-", false, "the store of the soil file's pore volume on the pedotransfer route was not found in hermes.Input")
	}
}
