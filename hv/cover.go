package main

// Path-coverage check on guard families: a quantity is (re)defined on every
// path of a function iff the disjunction of the path conditions of its
// defining stores is a tautology.  Conditions are abstracted to propositional
// atoms (a comparison and its negation share one atom); the check enumerates
// all assignments of the (few) atoms.  Related atoms (x > 0, x >= 0) are
// treated as independent, which can only make the check stricter.

import (
	"go/token"
	"sort"
	"strings"
)

func condAtomKey(c *Cond) (key string, neg bool, ok bool) {
	switch c.Kind {
	case "cmp":
		p := stripVersions(c.P).String()
		switch c.Op {
		case token.GTR:
			return p + " > 0", false, true
		case token.LEQ:
			return p + " > 0", true, true
		case token.GEQ:
			return p + " >= 0", false, true
		case token.LSS:
			return p + " >= 0", true, true
		case token.EQL:
			return p + " == 0", false, true
		case token.NEQ:
			return p + " == 0", true, true
		}
	case "opq":
		return "?" + verRe.ReplaceAllString(c.Text, ""), false, true
	}
	return "", false, false
}

func condCollect(c *Cond, atoms map[string]bool) {
	switch c.Kind {
	case "and", "or", "not":
		for _, s := range c.Sub {
			condCollect(s, atoms)
		}
	default:
		if k, _, ok := condAtomKey(c); ok {
			atoms[k] = true
		}
	}
}

func condEval(c *Cond, env map[string]bool) bool {
	switch c.Kind {
	case "and":
		for _, s := range c.Sub {
			if !condEval(s, env) {
				return false
			}
		}
		return true
	case "or":
		for _, s := range c.Sub {
			if condEval(s, env) {
				return true
			}
		}
		return false
	case "not":
		return !condEval(c.Sub[0], env)
	case "const":
		return c.Val
	}
	k, neg, ok := condAtomKey(c)
	if !ok {
		return true // unknown condition kinds do not restrict a path
	}
	return env[k] != neg
}

// coversAllPaths reports whether, under the assumptions, some member of the
// family (each a conjunction) holds for every truth assignment.
func coversAllPaths(family [][]*Cond, assume []*Cond) (bool, string) {
	atoms := map[string]bool{}
	for _, f := range family {
		for _, c := range f {
			condCollect(c, atoms)
		}
	}
	for _, c := range assume {
		condCollect(c, atoms)
	}
	var keys []string
	for k := range atoms {
		keys = append(keys, k)
	}
	sort.Strings(keys)
	if len(keys) > 18 {
		return false, "too many distinct conditions to enumerate"
	}
	for m := 0; m < 1<<uint(len(keys)); m++ {
		env := map[string]bool{}
		for i, k := range keys {
			env[k] = m&(1<<uint(i)) != 0
		}
		sat := true
		for _, a := range assume {
			if !condEval(a, env) {
				sat = false
			}
		}
		if !sat {
			continue
		}
		covered := false
		for _, f := range family {
			all := true
			for _, c := range f {
				if !condEval(c, env) {
					all = false
					break
				}
			}
			if all {
				covered = true
				break
			}
		}
		if !covered {
			var ws []string
			for _, k := range keys {
				if env[k] {
					ws = append(ws, k)
				} else {
					ws = append(ws, "¬("+k+")")
				}
			}
			return false, "uncovered path: " + strings.Join(ws, " ∧ ")
		}
	}
	return true, ""
}

// definedOnAllPaths checks that root (a scalar cell, or an array swept over
// all layers 0..N−1) is assigned on every path through the walked function.
func definedOnAllPaths(x *Exec, root string, array bool) (bool, string, int) {
	var family [][]*Cond
	n := 0
	nonLoop := func(gs []*Cond) []*Cond {
		var out []*Cond
		for _, g := range flattenGuards(gs) {
			if !g.Loop {
				out = append(out, g)
			}
		}
		return out
	}
	if !array {
		for _, e := range x.Events {
			if e.Kind == "assign" && e.Root == root && len(e.Loops) == 0 {
				n++
				family = append(family, nonLoop(e.Guards))
			}
		}
	} else {
		// loops that sweep the whole array: index = loop variable, bounds 0..N−1
		byLoop := map[*LoopCtx][]*Event{}
		for _, e := range x.Events {
			if e.Kind != "assign" || e.Root != root || len(e.Idx) != 1 || len(e.Loops) != 1 {
				continue
			}
			L := e.Loops[0]
			if L.Var == nil || !e.Idx[0].Equal(PAtom(L.Var)) {
				continue
			}
			lo, hi, unit, why := loopBounds(x, L)
			if why != "" || !unit || !lo.IsZero() || !stripVersions(hi).Equal(cellP("GlobalVarsMain.N").Sub(PInt(1))) {
				continue
			}
			byLoop[L] = append(byLoop[L], e)
		}
		for L, es := range byLoop {
			var inner [][]*Cond
			for _, e := range es {
				inner = append(inner, inLoopGuards(e, L))
			}
			if ok, _ := coversAllPaths(inner, nil); !ok {
				continue // the sweep leaves some layers untouched on some paths
			}
			n++
			var outer []*Cond
			if L.Entry != nil {
				outer = nonLoop(L.Entry.guards)
			}
			family = append(family, outer)
		}
	}
	if n == 0 {
		return false, "no defining store found", 0
	}
	ok, why := coversAllPaths(family, nil)
	return ok, why, n
}
