package main

import (
	"fmt"
	"go/ast"
	"go/token"
	"go/types"
)

// c20RecordFiling (C20.R10): the lookup rules start from the value map and the timestamp list; they do not see a
// level filed under the neighbouring day or a record whose date never reaches the list the interpolation scans.
// Demanded: in the series reader the only store into the value map has as key a plain local that is the absolute-day
// result of the date converter applied to a token of the line, as value a plain local parsed from another token of the
// same line, and the same key local is appended to the timestamp list in the same block.  (That the containers are
// created in the reader is not demanded: the run state is fresh for every run and the reader runs once, so a list
// left nil until the first append behaves the same.)
func c20RecordFiling(p *Prog, r *Report) {
	r.Rule("C20.R10", "each kept record of the groundwater series is filed under its own date: value map[date] = level with date the converter's absolute-day result for a token of the line and level parsed from another token of that line, the same date appended to the timestamp list in the same block", 2)
	fi := p.Funcs["hermes.ReadGroundWaterTimeSeries"]
	if fi == nil {
		r.Ob("series-filing", "-", false, "ReadGroundWaterTimeSeries not found")
		return
	}
	info := fi.Pkg.TypesInfo
	body := fi.Decl.Body
	single := func(o types.Object) (localDef, bool) {
		if o == nil {
			return localDef{}, false
		}
		ds := defsOf(info, body, o)
		if len(ds) != 1 {
			return localDef{}, false
		}
		return ds[0], true
	}
	// tokenArg: the call's first argument is an element of a local token slice; returns the slice object and the index text
	tokenArg := func(call *ast.CallExpr) (types.Object, string) {
		if len(call.Args) == 0 {
			return nil, ""
		}
		ix, ok := stripParens(call.Args[0]).(*ast.IndexExpr)
		if !ok {
			return nil, ""
		}
		return useObj(info, ix.X), types.ExprString(ix.Index)
	}
	isField := func(e ast.Expr, name string) bool {
		sel, ok := stripParens(e).(*ast.SelectorExpr)
		return ok && sel.Sel.Name == name && isNamed(info.TypeOf(sel.X), "hermes", "GlobalVarsMain")
	}
	// the date converter is a function-valued field of the run state (set once per run from the configured format)
	isConverter := func(call *ast.CallExpr) bool {
		if f := callee(info, call); f != nil {
			return f.Name() == "Datum"
		}
		return isField(call.Fun, "Datum")
	}
	var loop *ast.ForStmt
	for _, st := range body.List {
		if f, ok := st.(*ast.ForStmt); ok {
			loop = f
		}
	}
	if loop == nil {
		r.Ob("series-filing", p.Pos(fi.Decl.Pos()), false, "no record loop found")
		return
	}
	// the store and the append
	nStore := 0
	ast.Inspect(loop.Body, func(n ast.Node) bool {
		as, ok := n.(*ast.AssignStmt)
		if !ok || len(as.Lhs) != 1 || len(as.Rhs) != 1 {
			return true
		}
		ix, ok := stripParens(as.Lhs[0]).(*ast.IndexExpr)
		if !ok || !isField(ix.X, "GWTimeSeriesValues") {
			return true
		}
		nStore++
		ok2, det := as.Tok == token.ASSIGN, ""
		keyObj := useObj(info, ix.Index)
		var toks types.Object
		var dateTok string
		if d, has := single(keyObj); !has {
			ok2, det = false, "the key "+types.ExprString(ix.Index)+" is not a plain local with one definition"
		} else if call, isCall := stripParens(d.Rhs).(*ast.CallExpr); !isCall || !isConverter(call) || d.Idx != 1 {
			ok2, det = false, "the key is not the absolute-day result of the date converter"
		} else if toks, dateTok = tokenArg(call); toks == nil {
			ok2, det = false, "the date is not converted from a token of the line"
		}
		if ok2 {
			valObj := useObj(info, as.Rhs[0])
			if d, has := single(valObj); !has {
				ok2, det = false, "the stored level is not a plain local with one definition"
			} else if call, isCall := stripParens(d.Rhs).(*ast.CallExpr); !isCall || callee(info, call) == nil || callee(info, call).Name() != "ValAsFloat" {
				ok2, det = false, "the stored level is not parsed from the line"
			} else if t2, lvlTok := tokenArg(call); t2 != toks || lvlTok == dateTok {
				ok2, det = false, "the level is not parsed from another token of the same line"
			}
		}
		// the append of the same key in the same block
		appended := false
		if ok2 {
			path := nodePath(loop.Body, as)
			var blk *ast.BlockStmt
			for i := len(path) - 1; i >= 0 && blk == nil; i-- {
				blk, _ = path[i].(*ast.BlockStmt)
			}
			if blk != nil {
				for _, st := range blk.List {
					a2, isA := st.(*ast.AssignStmt)
					if !isA || len(a2.Lhs) != 1 || len(a2.Rhs) != 1 || !isField(a2.Lhs[0], "GWTimestamps") {
						continue
					}
					call, isCall := stripParens(a2.Rhs[0]).(*ast.CallExpr)
					if !isCall || len(call.Args) != 2 {
						continue
					}
					if id, isId := call.Fun.(*ast.Ident); isId && id.Name == "append" && isField(call.Args[0], "GWTimestamps") && useObj(info, call.Args[1]) == keyObj {
						appended = true
					}
				}
			}
			if !appended {
				ok2, det = false, "the record's date is not appended to the timestamp list next to the store: the interpolation between records does not see it"
			}
		}
		if ok2 {
			det = "value map[date] = level, date and level from two tokens of the line, date appended to the timestamp list"
		}
		r.Ob("series-filing:store", p.Pos(as.Pos()), ok2, det)
		return true
	})
	r.Ob("series-filing:one-store", p.Pos(loop.Pos()), nStore == 1, fmt.Sprintf("%d store(s) into the value map in the record loop (want 1)", nStore))
}
