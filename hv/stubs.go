package main

func thoroughExtras(id string, p *Prog, r *Report) {}

func runSelfTest(args []string) int { return 0 }
