package main

// Thorough tier: checker self-validation.  After the rules have judged the
// current tree, every stored, independently seeded change of this property
// (/verif/seeded/<id>-*/patch.diff, marked detected) and every entry of the
// hand-written corpus (/verif/corpus/<id>.json: further mutants and
// behaviour-preserving "benign" variants) is applied to an in-memory copy of
// the touched files and fed back through the loader's overlay in a
// sub-process.  Nothing under /repo is written.  A mutant must make the check
// report a violation; a benign variant must leave it silent.  A variant whose
// anchor no longer exists in the tree is reported as skipped.  A failure of
// the self-validation is an infrastructure failure (exit 2), never a
// property violation: it means the checker, not the repository, is broken.

import (
	"encoding/json"
	"fmt"
	"os"
	"os/exec"
	"path/filepath"
	"sort"
	"strings"
	"sync"
)

type corpusEntry struct {
	Name   string `json:"name"`
	Kind   string `json:"kind"` // mutant | benign
	File   string `json:"file"` // relative to the repository root
	Old    string `json:"old"`
	New    string `json:"new"`
	Expect string `json:"expect,omitempty"` // rule id prefix expected to fire (mutants)
	Why    string `json:"why,omitempty"`
}

type selfResult struct {
	Name    string   `json:"name"`
	Kind    string   `json:"kind"`
	Outcome string   `json:"outcome"` // killed | survived | silent | flagged | skipped | error
	Rules   []string `json:"rules,omitempty"`
	Note    string   `json:"note,omitempty"`
}

type overlaySpec struct {
	Files map[string]string `json:"files"` // absolute path → content
}

// overlayFromPatch applies a unified diff to copies of the touched files.
func overlayFromPatch(patch string) (map[string][]byte, error) {
	b, err := os.ReadFile(patch)
	if err != nil {
		return nil, err
	}
	var files []string
	for _, l := range strings.Split(string(b), "\n") {
		if strings.HasPrefix(l, "+++ b/") {
			files = append(files, strings.TrimPrefix(l, "+++ b/"))
		}
	}
	tmp, err := os.MkdirTemp("", "hvov")
	if err != nil {
		return nil, err
	}
	defer os.RemoveAll(tmp)
	for _, f := range files {
		src, err := os.ReadFile(filepath.Join(repoRoot(), f))
		if err != nil {
			return nil, fmt.Errorf("anchor file missing: %s", f)
		}
		dst := filepath.Join(tmp, f)
		os.MkdirAll(filepath.Dir(dst), 0o755)
		if err := os.WriteFile(dst, src, 0o644); err != nil {
			return nil, err
		}
	}
	cmd := exec.Command("git", "apply", "--unsafe-paths", patch)
	cmd.Dir = tmp
	if out, err := cmd.CombinedOutput(); err != nil {
		return nil, fmt.Errorf("patch does not apply: %s", strings.TrimSpace(string(out)))
	}
	ov := map[string][]byte{}
	for _, f := range files {
		c, err := os.ReadFile(filepath.Join(tmp, f))
		if err != nil {
			return nil, err
		}
		ov[filepath.Join(repoRoot(), f)] = c
	}
	return ov, nil
}

func overlayFromEntry(e corpusEntry) (map[string][]byte, error) {
	path := filepath.Join(repoRoot(), e.File)
	src, err := os.ReadFile(path)
	if err != nil {
		return nil, fmt.Errorf("anchor file missing: %s", e.File)
	}
	s := string(src)
	if strings.Count(s, e.Old) < 1 {
		return nil, fmt.Errorf("anchor text not found in %s", e.File)
	}
	return map[string][]byte{path: []byte(strings.Replace(s, e.Old, e.New, 1))}, nil
}

// runOverlayChild runs "hv check-overlay <id> <spec.json>" and returns the failing rule keys.
func runOverlayChild(id string, ov map[string][]byte) ([]string, error) {
	spec := overlaySpec{Files: map[string]string{}}
	for k, v := range ov {
		spec.Files[k] = string(v)
	}
	f, err := os.CreateTemp("", "hvspec*.json")
	if err != nil {
		return nil, err
	}
	defer os.Remove(f.Name())
	json.NewEncoder(f).Encode(spec)
	f.Close()
	exe, _ := os.Executable()
	cmd := exec.Command(exe, "check-overlay", id, f.Name())
	cmd.Env = append(os.Environ(), "HV_SELFTEST=1")
	out, err := cmd.Output()
	var res struct {
		Infra []string `json:"infra"`
		Keys  []string `json:"keys"`
	}
	idx := strings.LastIndex(string(out), "SELFTEST-RESULT ")
	if idx < 0 {
		return nil, fmt.Errorf("child produced no result (%v)", err)
	}
	if e := json.Unmarshal([]byte(string(out)[idx+len("SELFTEST-RESULT "):]), &res); e != nil {
		return nil, e
	}
	if len(res.Infra) > 0 {
		return nil, fmt.Errorf("child infrastructure failure: %s", strings.Join(res.Infra, "; "))
	}
	return res.Keys, nil
}

func runCheckOverlay(id, specFile string) int {
	c, ok := checkers[id]
	if id == "ALL" {
		// development mode (mutation sweep): all properties' rules on one load
		ids := make([]string, 0, len(checkers))
		for k := range checkers {
			ids = append(ids, k)
		}
		sort.Strings(ids)
		c, ok = func(p *Prog, r *Report) {
			for _, k := range ids {
				sub := NewReport(k, "quick", p)
				func() {
					defer func() {
						if e := recover(); e != nil {
							r.Infra = append(r.Infra, fmt.Sprintf("%s: analyser panic: %v", k, e))
						}
					}()
					checkers[k](p, sub)
				}()
				r.extraKeys = append(r.extraKeys, sub.FailingKeys()...)
				r.Infra = append(r.Infra, sub.Infra...)
			}
		}, true
	}
	if !ok {
		return 2
	}
	b, err := os.ReadFile(specFile)
	if err != nil {
		return 2
	}
	var spec overlaySpec
	if json.Unmarshal(b, &spec) != nil {
		return 2
	}
	ov := map[string][]byte{}
	for k, v := range spec.Files {
		ov[k] = []byte(v)
	}
	out := struct {
		Infra []string `json:"infra"`
		Keys  []string `json:"keys"`
	}{}
	p, err := Load(quickPatterns, ov)
	if err != nil {
		out.Infra = append(out.Infra, err.Error())
	} else {
		r := NewReport(id, "quick", p)
		func() {
			defer func() {
				if e := recover(); e != nil {
					out.Infra = append(out.Infra, fmt.Sprintf("analyser panic: %v", e))
				}
			}()
			c(p, r)
		}()
		out.Keys = append(r.FailingKeys(), r.extraKeys...)
		out.Infra = append(out.Infra, r.Infra...)
	}
	j, _ := json.Marshal(out)
	fmt.Println("SELFTEST-RESULT " + string(j))
	return 0
}

func thoroughExtras(id string, p *Prog, r *Report) {
	type job struct {
		name, kind, expect string
		ov                 map[string][]byte
		err                error
	}
	var jobs []job
	// stored seeded changes
	seeds, _ := filepath.Glob(filepath.Join(verifDir(), "seeded", id+"-*"))
	sort.Strings(seeds)
	for _, d := range seeds {
		var meta struct {
			Detected *bool `json:"detected_by_check"`
		}
		if b, err := os.ReadFile(filepath.Join(d, "meta.json")); err == nil {
			json.Unmarshal(b, &meta)
		}
		if meta.Detected != nil && !*meta.Detected {
			continue // recorded miss (see DESIGN.md section 8): not part of the must-kill corpus
		}
		ov, err := overlayFromPatch(filepath.Join(d, "patch.diff"))
		jobs = append(jobs, job{name: "seed:" + filepath.Base(d), kind: "mutant", ov: ov, err: err})
	}
	// hand-written corpus
	if b, err := os.ReadFile(filepath.Join(verifDir(), "corpus", id+".json")); err == nil {
		var es []corpusEntry
		if err := json.Unmarshal(b, &es); err != nil {
			r.InfraFail("corpus/%s.json: %v", id, err)
		}
		for _, e := range es {
			ov, err := overlayFromEntry(e)
			jobs = append(jobs, job{name: e.Name, kind: e.Kind, expect: e.Expect, ov: ov, err: err})
		}
	}
	results := make([]selfResult, len(jobs))
	sem := make(chan struct{}, 6)
	var wg sync.WaitGroup
	for i, j := range jobs {
		if j.err != nil {
			results[i] = selfResult{Name: j.name, Kind: j.kind, Outcome: "skipped", Note: j.err.Error()}
			continue
		}
		wg.Add(1)
		go func(i int, j job) {
			defer wg.Done()
			sem <- struct{}{}
			defer func() { <-sem }()
			keys, err := runOverlayChild(id, j.ov)
			res := selfResult{Name: j.name, Kind: j.kind, Rules: keys}
			switch {
			case err != nil:
				res.Outcome, res.Note = "error", err.Error()
			case j.kind == "mutant" && len(keys) > 0:
				res.Outcome = "killed"
				if j.expect != "" {
					hit := false
					for _, k := range keys {
						if strings.HasPrefix(k, j.expect) {
							hit = true
						}
					}
					if !hit {
						res.Outcome, res.Note = "survived", "fired, but not the expected rule "+j.expect
					}
				}
			case j.kind == "mutant":
				res.Outcome = "survived"
			case len(keys) == 0:
				res.Outcome = "silent"
			default:
				res.Outcome = "flagged"
			}
			results[i] = res
		}(i, j)
	}
	wg.Wait()
	cnt := map[string]int{}
	for _, res := range results {
		cnt[res.Kind+":"+res.Outcome]++
		if res.Outcome == "survived" || res.Outcome == "flagged" || res.Outcome == "error" {
			r.InfraFail("self-validation: %s (%s) %s %v %s", res.Name, res.Kind, res.Outcome, res.Rules, res.Note)
		}
	}
	r.Extra["self_validation"] = map[string]interface{}{
		"mutants_total":  cnt["mutant:killed"] + cnt["mutant:survived"] + cnt["mutant:skipped"] + cnt["mutant:error"],
		"mutants_killed": cnt["mutant:killed"],
		"benign_total":   cnt["benign:silent"] + cnt["benign:flagged"] + cnt["benign:skipped"] + cnt["benign:error"],
		"benign_silent":  cnt["benign:silent"],
		"skipped":        cnt["mutant:skipped"] + cnt["benign:skipped"],
		"results":        results,
		"rule":           "each stored seeded change and corpus mutant must make the check report a violation; each benign variant must leave it silent; applied through the loader's overlay in a sub-process, nothing under /repo is written",
	}
	fmt.Printf("self-validation: mutants killed %d/%d, benign silent %d/%d, skipped %d\n", cnt["mutant:killed"], cnt["mutant:killed"]+cnt["mutant:survived"]+cnt["mutant:error"], cnt["benign:silent"], cnt["benign:silent"]+cnt["benign:flagged"]+cnt["benign:error"], cnt["mutant:skipped"]+cnt["benign:skipped"])
}

func runSelfTest(args []string) int { return 0 }
